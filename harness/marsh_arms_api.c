/* C10/C09: the top level janet_unmarshal and the abstract-type API an unmarshal hook uses (marsh.c): janet_unmarshal_int,
 * _int64, _size, _byte, _bytes, _ptr, _ensure, _janet, _abstract, _abstract_reuse, and unmarshal_one_abstract that drives a
 * hook. Each reader must check the remaining input BEFORE it reads, and advance the context's cursor by exactly what it
 * consumed. The byte readers run the REAL readint / read64 on an exactly-sized symbolic input (marsh_arms.h). */
#include "marsh_arms.h"
static JanetAbstractType ap_type;
static void ap_ctx(JanetMarshalContext *ctx, UnmarshalState *st, int flags) {
  ctx->m_state = (void *) 0; ctx->u_state = st; ctx->flags = flags; ctx->data = MA_CUR; ctx->at = &ap_type;
}
#define AP_ADVANCED(ctx, k, what) __CPROVER_assert((ctx).data == MA_CUR + (k) && ma_off + (k) <= ma_n, what)

#ifdef AP_INT
void h_api_int(void) {
  UnmarshalState st; JanetMarshalContext ctx; ma_setup(&st); ap_ctx(&ctx, &st, nd_int());
  int32_t r = janet_unmarshal_int(&ctx);
  __CPROVER_assert(ma_off < ma_n, "C10 janet_unmarshal_int: nothing is read from an exhausted input");
  uint8_t b0 = MA_B(0);
  if (b0 < 128) { __CPROVER_assert(r == b0, "C09 janet_unmarshal_int: one byte b < 128 reads back as b"); AP_ADVANCED(ctx, 1, "C10 janet_unmarshal_int: the cursor advances by exactly the one byte consumed"); REACH("one byte"); }
  else if (b0 < 192) { __CPROVER_assert(ma_off + 1 < ma_n && r == (int32_t)((((b0 & 0x3F) << 8) | MA_B(1)) ^ 0x2000) - 0x2000, "C09 janet_unmarshal_int: two bytes read back as the sign-extended 14-bit value");
    AP_ADVANCED(ctx, 2, "C10 janet_unmarshal_int: the cursor advances by exactly the two bytes consumed"); REACH("two bytes"); }
  else { __CPROVER_assert(b0 == LB_INTEGER && ma_off + 4 < ma_n && r == (int32_t)(((uint32_t) MA_B(1) << 24) | ((uint32_t) MA_B(2) << 16) | ((uint32_t) MA_B(3) << 8) | (uint32_t) MA_B(4)), "C09 janet_unmarshal_int: five bytes read back as the big-endian 32-bit value; any other lead byte is refused");
    AP_ADVANCED(ctx, 5, "C10 janet_unmarshal_int: the cursor advances by exactly the five bytes consumed"); REACH("five bytes"); }
}
#endif

#ifdef AP_INT64
void h_api_int64(void) {
  UnmarshalState st; JanetMarshalContext ctx; ma_setup(&st); ap_ctx(&ctx, &st, nd_int());
#ifdef AP_SIZE
  uint64_t r = (uint64_t) janet_unmarshal_size(&ctx);
#else
  uint64_t r = (uint64_t) janet_unmarshal_int64(&ctx);
#endif
  __CPROVER_assert(ma_off < ma_n, "C10 janet_unmarshal_int64/size: nothing is read from an exhausted input");
  uint8_t b0 = MA_B(0);
  if (b0 <= 0xF0) { __CPROVER_assert(r == b0, "C09 janet_unmarshal_int64/size: one byte b <= 0xF0 reads back as b"); AP_ADVANCED(ctx, 1, "C10 janet_unmarshal_int64/size: the cursor advances by exactly the one byte consumed"); REACH("one byte"); }
  else {
    size_t nb = (size_t) b0 - 0xF0;
    __CPROVER_assert(nb <= 8 && ma_off + nb < ma_n, "C10 janet_unmarshal_int64/size: at most eight value bytes, all inside the input");
    uint64_t want = 0;
    if (nb >= 8) want = (want << 8) + MA_B(8);
    if (nb >= 7) want = (want << 8) + MA_B(7);
    if (nb >= 6) want = (want << 8) + MA_B(6);
    if (nb >= 5) want = (want << 8) + MA_B(5);
    if (nb >= 4) want = (want << 8) + MA_B(4);
    if (nb >= 3) want = (want << 8) + MA_B(3);
    if (nb >= 2) want = (want << 8) + MA_B(2);
    want = (want << 8) + MA_B(1);
    __CPROVER_assert(r == want, "C09 janet_unmarshal_int64/size: the value bytes read back little endian (what push64 wrote)");
    AP_ADVANCED(ctx, nb + 1, "C10 janet_unmarshal_int64/size: the cursor advances by exactly the length byte and the value bytes");
    if (nb == 8) REACH("eight value bytes");
    REACH("multi byte");
  }
}
#endif

#ifdef AP_BYTE
void h_api_byte(void) {
  UnmarshalState st; JanetMarshalContext ctx; ma_setup(&st); ap_ctx(&ctx, &st, nd_int());
  uint8_t r = janet_unmarshal_byte(&ctx);
  __CPROVER_assert(ma_off < ma_n && r == MA_B(0), "C10 janet_unmarshal_byte: the byte under the cursor, never one from an exhausted input");
  AP_ADVANCED(ctx, 1, "C10 janet_unmarshal_byte: the cursor advances by exactly one");
  REACH("byte");
}
void h_api_ptr(void) {
  UnmarshalState st; JanetMarshalContext ctx; ma_setup(&st); int flags = nd_int(); ap_ctx(&ctx, &st, flags);
  void *r = janet_unmarshal_ptr(&ctx);
  __CPROVER_assert(flags & JANET_MARSHAL_UNSAFE, "C10 janet_unmarshal_ptr: a raw pointer is taken from the bytes only in unsafe mode");
  AP_ADVANCED(ctx, sizeof(void *), "C10 janet_unmarshal_ptr: all pointer bytes lie inside the input; the cursor advances by exactly sizeof(void *)");
  REACH("pointer in unsafe mode");
}
#endif

#ifdef AP_BYTES
/* janet_unmarshal_bytes(ctx, dest, len). Precondition (the caller's): dest has room for len bytes. */
int ab_cpy_calls; size_t ab_cpy_len, ab_cpy_src; void *ab_cpy_dst; size_t ab_gi;
void ab_memcpy_stub(void *dest, const void *src, size_t len) {
  __CPROVER_assert(len == 0 || (__CPROVER_r_ok(src, len) && __CPROVER_w_ok(dest, len)), "C10 janet_unmarshal_bytes: the copy reads only input bytes (the length was checked against the rest of the input BEFORE the copy)");
  ab_cpy_calls++; ab_cpy_len = len; ab_cpy_src = (size_t)((const uint8_t *) src - ma_in); ab_cpy_dst = dest;
  if (ab_gi < len) ((uint8_t *) dest)[ab_gi] = ((const uint8_t *) src)[ab_gi];
}
void h_api_bytes(void) {
  UnmarshalState st; JanetMarshalContext ctx; ma_setup(&st); ap_ctx(&ctx, &st, nd_int());
  size_t len = nd_size(); __CPROVER_assume(len <= ((size_t) 1 << 40));          /* requires: an object of len bytes exists */
  uint8_t *dest = malloc(len); __CPROVER_assume(dest != 0); ab_gi = nd_size();
  janet_unmarshal_bytes(&ctx, dest, len);
  __CPROVER_assert(len <= ma_n - ma_off, "C10 janet_unmarshal_bytes: returns only if `len` bytes remain in the input");
  __CPROVER_assert(ab_cpy_calls == 1 && ab_cpy_len == len && ab_cpy_src == ma_off && ab_cpy_dst == (void *) dest, "C09 janet_unmarshal_bytes: exactly the `len` bytes under the cursor are copied to dest");
  if (ab_gi < len) { __CPROVER_assert(dest[ab_gi] == MA_B(ab_gi), "C09 janet_unmarshal_bytes: every byte reads back as written"); REACH("at least one byte copied"); }
  AP_ADVANCED(ctx, len, "C10 janet_unmarshal_bytes: the cursor advances by exactly len");
  if (len == 0) REACH("zero bytes");
  REACH("bytes");
}
#endif

#ifdef AP_ENSURE
/* janet_unmarshal_ensure(ctx, size): raises unless more than `size` bytes remain. `size` typically comes straight from the
 * image (janet_unmarshal_size). AP_ENSURE_MAX bounds it (bounded variant); without it: every size_t. */
void h_api_ensure(void) {
  UnmarshalState st; JanetMarshalContext ctx; ma_setup(&st); ap_ctx(&ctx, &st, nd_int());
  size_t size = nd_size();
#ifdef AP_ENSURE_MAX
  __CPROVER_assume(size <= AP_ENSURE_MAX);
#endif
  janet_unmarshal_ensure(&ctx, size);
  __CPROVER_assert(size <= ma_n - ma_off, "C10 janet_unmarshal_ensure: returns only if at least `size` bytes remain in the input");
  __CPROVER_assert(ctx.data == MA_CUR, "C10 janet_unmarshal_ensure: the cursor does not move");
  REACH("ensure");
}
#endif

#ifdef AP_JANET
/* janet_unmarshal_janet: one nested value, read by unmarshal_one at the context's depth; the cursor follows */
int aj_calls, aj_args_ok; Janet aj_val; size_t aj_ret;
const uint8_t *aj_rec_stub(UnmarshalState *st, const uint8_t *data, Janet *out, int flags);
UnmarshalState *aj_st; int aj_flags;
const uint8_t *aj_rec_stub(UnmarshalState *st, const uint8_t *data, Janet *out, int flags) {
  size_t at = (size_t)(data - ma_in); __CPROVER_assume(at < ma_n);
  aj_calls++; aj_args_ok = (st == aj_st && at == ma_off && flags == aj_flags);
  Janet v; v.u64 = nd_u64(); aj_val = v; *out = v;
  size_t k = nd_size(); __CPROVER_assume(k >= 1 && k <= ma_n - at); aj_ret = at + k; return ma_in + at + k;
}
void h_api_janet(void) {
  UnmarshalState st; JanetMarshalContext ctx; ma_setup(&st); aj_flags = nd_int(); ap_ctx(&ctx, &st, aj_flags); aj_st = &st;
  Janet r = janet_unmarshal_janet(&ctx);
  __CPROVER_assert(aj_calls == 1 && aj_args_ok, "C10 janet_unmarshal_janet: one nested value is read from the context's cursor, in the context's state, at the context's depth");
  __CPROVER_assert(MA_SAME(r, aj_val) && ctx.data == ma_in + aj_ret, "C10 janet_unmarshal_janet: returns that value; the cursor is where the nested reader left it");
  REACH("nested value");
}
#endif

#ifdef AP_ABSTRACT
/* janet_unmarshal_abstract(ctx, size) / janet_unmarshal_abstract_reuse(ctx, p): the hook's object gets the next reference
 * number, exactly once; a second call in the same hook is refused */
int aa_calls; size_t aa_size; const JanetAbstractType *aa_at; void *aa_obj;
void *aa_abstract_stub(const JanetAbstractType *type, size_t size) { aa_calls++; aa_size = size; aa_at = type; aa_obj = malloc(size); __CPROVER_assume(aa_obj != 0); return aa_obj; }
void h_api_abstract(void) {
  UnmarshalState st; JanetMarshalContext ctx; ma_setup(&st); ap_ctx(&ctx, &st, nd_int());
  if (nd_int()) ctx.at = (const JanetAbstractType *) 0;                      /* the hook already registered its object */
  const JanetAbstractType *at0 = ctx.at; size_t size = nd_size(); __CPROVER_assume(size <= 64);
#ifdef AP_REUSE
  static long long blk[2]; void *p = blk; janet_unmarshal_abstract_reuse(&ctx, p);
#else
  void *p = janet_unmarshal_abstract(&ctx, size);
  __CPROVER_assert(aa_calls == 1 && aa_size == size && aa_at == &ap_type && p == aa_obj, "C10 janet_unmarshal_abstract: one abstract object of the hook's type and the requested size");
#endif
  __CPROVER_assert(at0 != (const JanetAbstractType *) 0, "C10 janet_unmarshal_abstract: a second registration in the same hook is refused");
  __CPROVER_assert(ctx.at == (const JanetAbstractType *) 0, "C10 janet_unmarshal_abstract: the context remembers that the object is registered");
  Janet want = janet_wrap_abstract(p);
  MA_ASSERT_PUSHED_ONCE(st, want, "C09 janet_unmarshal_abstract: the object gets the next reference number, exactly once", "C09 janet_unmarshal_abstract: earlier reference numbers keep their values");
  __CPROVER_assert(ctx.data == MA_CUR, "C10 janet_unmarshal_abstract: the cursor does not move");
  REACH("abstract registered");
}
#endif

#ifdef AP_ONE_ABSTRACT
/* unmarshal_one_abstract: type name (a nested value, one level deeper), type lookup, then the type's unmarshal hook runs on a
 * context {state, depth + 1, cursor, type}. Contract: returns only if the type is known, has a hook, the hook returned an
 * object AND registered it (janet_unmarshal_abstract); the result is that object; the cursor is where the hook left it. */
int ao_calls, ao_key_args_ok, ao_hook_calls, ao_hook_ctx_ok, ao_hook_registered; Janet ao_key; size_t ao_key_ret, ao_hook_ret; int ao_flags; UnmarshalState *ao_st;
static long long ao_obj[2]; int ao_type_known, ao_has_hook, ao_hook_null;
const uint8_t *ao_rec_stub(UnmarshalState *st, const uint8_t *data, Janet *out, int flags) {
  size_t at = (size_t)(data - ma_in); __CPROVER_assume(at < ma_n);
  ao_calls++; ao_key_args_ok = (st == ao_st && at == ma_off && flags == ao_flags + 1);
  Janet v; v.type = (JanetType)(nd_int() & 15); v.as.u64 = nd_u64(); ao_key = v; *out = v;
  size_t k = nd_size(); __CPROVER_assume(k >= 1 && k <= ma_n - at); ao_key_ret = at + k; return ma_in + at + k;
}
static void *ao_hook(JanetMarshalContext *ctx) {
  ao_hook_calls++;
  ao_hook_ctx_ok = (ctx->u_state == (void *) ao_st && ctx->flags == ao_flags + 1 && ctx->data == ma_in + ao_key_ret && ctx->at == &ap_type && ctx->m_state == (void *) 0);
  if (nd_int()) { janet_unmarshal_abstract_reuse(ctx, ao_obj); ao_hook_registered = 1; }
  size_t k = nd_size(); __CPROVER_assume(k <= ma_n - ao_key_ret); ctx->data = ma_in + ao_key_ret + k; ao_hook_ret = ao_key_ret + k;
  ao_hook_null = nd_int() & 1;
  return ao_hook_null ? (void *) 0 : (void *) ao_obj;
}
const JanetAbstractType *ao_get_type_stub(Janet key) {
  __CPROVER_assert(MA_SAME(key, ao_key), "C10 abstract: the type is looked up under the name that was read");
  ao_type_known = nd_int() & 1; return ao_type_known ? &ap_type : (const JanetAbstractType *) 0;
}
void h_one_abstract(void) {
  UnmarshalState st; Janet out = janet_wrap_nil(); ma_setup(&st); ao_flags = nd_int(); ao_st = &st;
  __CPROVER_assume((ao_flags & 0xFFFF) <= JANET_RECURSION_GUARD);     /* requires: the only caller, unmarshal_one, has passed MARSH_STACKCHECK with these flags */
  ao_has_hook = nd_int() & 1; ap_type.name = "t"; ap_type.unmarshal = ao_has_hook ? ao_hook : 0;
  const uint8_t *ret = unmarshal_one_abstract(&st, MA_CUR, &out, ao_flags);
  __CPROVER_assert(ao_calls == 1 && ao_key_args_ok, "C10/C19 abstract: the type name is one nested value read one level deeper (flags + 1)");
  __CPROVER_assert(ao_type_known && ao_has_hook, "C10 abstract: an unknown type, or a type without unmarshal hook, is refused");
  __CPROVER_assert(ao_hook_calls == 1 && ao_hook_ctx_ok, "C10/C19 abstract: the hook runs once, on a context with this state, the cursor after the type name, the type, and depth flags + 1");
  __CPROVER_assert(!ao_hook_null, "C10 abstract: a hook that returns no object is refused");
  __CPROVER_assert(ao_hook_registered, "C09 abstract: a hook that did not register its object (janet_unmarshal_abstract) is refused - the numbering would go out of step with marshal");
  __CPROVER_assert(out.type == JANET_ABSTRACT && out.as.pointer == (void *) ao_obj, "C10 abstract: the result is the hook's object, tagged abstract");
  __CPROVER_assert(ret == ma_in + ao_hook_ret, "C10 abstract: the cursor returned is where the hook left it");
  MA_ASSERT_PUSHED_ONCE(st, out, "C09 abstract: the object has the next reference number, exactly once", "C09 abstract: earlier reference numbers keep their values");
  REACH("abstract value");
}
#endif

#ifdef AP_TOP
/* janet_unmarshal(bytes, len, flags, reg, next): the state describes exactly [bytes, bytes + len), starts with no numbered
 * values / definitions / environments, carries the caller's lookup table and flags; the result and *next are what the one
 * top-level read produced; the three numbering vectors are released (scratch memory) on the way out. */
static uint8_t at_bytes[4]; JanetTable at_reg; size_t at_len; int at_flags; int at_calls, at_args_ok; Janet at_val; size_t at_ret;
struct at_vec { int32_t cap, cnt; void *items[2]; }; struct at_vec *at_v[3]; int at_frees, at_free_ok = 1, at_freed[3];
const uint8_t *at_rec_stub(UnmarshalState *st, const uint8_t *data, Janet *out, int flags) {
  at_calls++;
  at_args_ok = (st->start == at_bytes && st->end == at_bytes + at_len && st->lookup == 0 && st->lookup_defs == 0 && st->lookup_envs == 0 && st->reg == &at_reg && data == at_bytes && flags == at_flags);
  /* the read numbers some values / definitions / environments: vectors appear */
  for (int i = 0; i < 3; i++) { at_v[i] = 0; if (nd_int()) { at_v[i] = malloc(sizeof(struct at_vec)); __CPROVER_assume(at_v[i] != 0); at_v[i]->cap = 2; at_v[i]->cnt = 1; } }
  st->lookup = at_v[0] ? (Janet *) at_v[0]->items : 0; st->lookup_defs = at_v[1] ? (JanetFuncDef **) at_v[1]->items : 0; st->lookup_envs = at_v[2] ? (JanetFuncEnv **) at_v[2]->items : 0;
  Janet v; v.u64 = nd_u64(); at_val = v; *out = v;
  at_ret = nd_size(); __CPROVER_assume(at_ret >= 1 && at_ret <= at_len);
  return at_bytes + at_ret;
}
void at_sfree_stub(void *mem) {
  int hit = 0;
  for (int i = 0; i < 3; i++) if (at_v[i] && mem == (void *) at_v[i]) { hit = 1; at_free_ok = at_free_ok && !at_freed[i]; at_freed[i] = 1; }
  at_free_ok = at_free_ok && hit; at_frees++;
}
void h_api_top(void) {
  at_len = nd_size(); __CPROVER_assume(at_len <= 0x7fffffff); at_flags = nd_int();
  const uint8_t *next = 0; int want_next = nd_int();
  Janet r = janet_unmarshal(at_bytes, at_len, at_flags, &at_reg, want_next ? &next : (const uint8_t **) 0);
  __CPROVER_assert(at_calls == 1 && at_args_ok, "C10 janet_unmarshal: one top-level value is read from a state that describes exactly [bytes, bytes + len), has nothing numbered yet, and carries the caller's lookup table and flags");
  __CPROVER_assert(MA_SAME(r, at_val), "C10 janet_unmarshal: returns the value that was read");
  __CPROVER_assert(want_next ? next == at_bytes + at_ret : next == 0, "C10 janet_unmarshal: *next is the cursor after the value (only written when asked for)");
  __CPROVER_assert(at_free_ok && at_frees == (at_v[0] != 0) + (at_v[1] != 0) + (at_v[2] != 0), "C10 janet_unmarshal: each numbering vector that exists is released exactly once, and nothing else is");
  if (at_frees == 3) REACH("all three numbering vectors released");
  REACH("top level");
}
#endif

#ifdef AP_CFUN
/* (unmarshal buffer &opt lookup), the only way Janet code reaches janet_unmarshal in this file: it passes exactly the bytes
 * of its argument, the optional lookup table, and flags == 0 - never JANET_MARSHAL_UNSAFE (property C10: "without the unsafe
 * option"; the unsafe arms are then unreachable, units marsh.arm.unsafe_*) */
void cu_arity_stub(int32_t arity, int32_t min, int32_t max) { __CPROVER_assume(arity >= min && (max < 0 || arity <= max)); }   /* raises otherwise */
static uint8_t cu_bytes[4]; JanetByteView cu_view; JanetTable cu_tab; int cu_getbytes_ok, cu_gettable_calls, cu_gettable_ok; const Janet *cu_argv;
JanetByteView cu_getbytes_stub(const Janet *argv, int32_t n) { cu_getbytes_ok = (argv == cu_argv && n == 0); cu_view.bytes = cu_bytes; cu_view.len = nd_i32(); __CPROVER_assume(cu_view.len >= 0); return cu_view; }
JanetTable *cu_gettable_stub(const Janet *argv, int32_t n) { cu_gettable_calls++; cu_gettable_ok = (argv == cu_argv && n == 1); return &cu_tab; }
int cu_calls, cu_args_ok; int cu_flags_seen; JanetTable *cu_reg_seen; Janet cu_val;
Janet cu_unmarshal_stub(const uint8_t *bytes, size_t len, int flags, JanetTable *reg, const uint8_t **next) {
  cu_calls++; cu_args_ok = (bytes == cu_view.bytes && len == (size_t) cu_view.len && next == (const uint8_t **) 0); cu_flags_seen = flags; cu_reg_seen = reg;
  Janet v; v.u64 = nd_u64(); cu_val = v; return v;
}
void h_cfun_unmarshal(void) {
  Janet argv[2]; argv[0].u64 = nd_u64(); argv[1].u64 = nd_u64(); cu_argv = argv; int32_t argc = nd_i32();
  Janet r = cfun_unmarshal(argc, argv);
  __CPROVER_assert(argc >= 1 && argc <= 2, "C10 (unmarshal): one or two arguments");
  __CPROVER_assert(cu_calls == 1 && cu_getbytes_ok && cu_args_ok, "C10 (unmarshal): exactly the bytes of the first argument are unmarshalled");
  __CPROVER_assert(cu_flags_seen == 0, "C10 (unmarshal): Janet code cannot ask for unsafe unmarshalling - the flags are 0 (no JANET_MARSHAL_UNSAFE)");
  __CPROVER_assert(argc > 1 ? (cu_gettable_calls == 1 && cu_gettable_ok && cu_reg_seen == &cu_tab) : (cu_gettable_calls == 0 && cu_reg_seen == (JanetTable *) 0), "C10 (unmarshal): the lookup table is the second argument (must be a table) or absent");
  __CPROVER_assert(MA_SAME(r, cu_val), "C10 (unmarshal): returns the unmarshalled value");
  if (argc > 1) REACH("with lookup table");
  REACH("(unmarshal bytes)");
}
#endif
