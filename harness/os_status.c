/* C16: a subprocess's exit status is reported exactly (os.c proc_get_status): normal exit -> the exit code; killed by signal s
 * -> 128 + s; stopped by signal s -> 128 + s (POSIX shell convention named in the source). waitpid under an assumed contract
 * (returns the pid and stores any status word). */
#include "prelude.h"
#include <sys/wait.h>
int g_status;
pid_t waitpid_stub(pid_t pid, int *st, int opts) { *st = g_status; return pid; }
void h_proc_status(void) {
  JanetProc p; p.pid = nd_int(); g_status = nd_int();
  int r = proc_get_status(&p);
  if (WIFEXITED(g_status)) __CPROVER_assert(r == WEXITSTATUS(g_status), "C16 exit status: a normal exit reports the exit code");
  else if (WIFSTOPPED(g_status)) __CPROVER_assert(r == WSTOPSIG(g_status) + 128, "C16 exit status: stopped by signal s reports 128 + s");
  else __CPROVER_assert(WIFSIGNALED(g_status) && r == WTERMSIG(g_status) + 128, "C16 exit status: killed by signal s reports 128 + s");
  REACH("proc_get_status returns");
}
