/* C15: the dead-store elimination pass janet_bytecode_movopt (bytecode.c) may only delete instructions that cannot raise
 * an error and have no effect besides writing their destination slot ("clean-up passes never change what a function
 * computes" - an instruction that can raise computes an error). Spec set = loads of constants/immediates/self/upvalues,
 * closure creation, register moves, and allocation of empty-stack aggregates; everything else (get, in, length, arithmetic,
 * calls, ...) may raise or has effects and must survive even if its result is never read. Bounded: programs of N <= 3 instructions. */
#include "prelude.h"
#ifndef NINSTR
#define NINSTR 2
#endif
/* register allocator under contract (proved in units regalloc.touch / regalloc.check / regalloc.init): a set of registers */
uint32_t g_set[8];
void ra_init_stub(JanetcRegisterAllocator *ra) { for (int i = 0; i < 8; i++) g_set[i] = 0; }
void ra_deinit_stub(JanetcRegisterAllocator *ra) { }
void ra_touch_stub(JanetcRegisterAllocator *ra, int32_t reg) { __CPROVER_assert(reg >= 0, "register index not negative"); if (reg < 256) g_set[reg >> 5] |= 1u << (reg & 31); }
int ra_check_stub(JanetcRegisterAllocator *ra, int32_t reg) { __CPROVER_assert(reg >= 0, "register index not negative"); return reg < 256 ? (g_set[reg >> 5] >> (reg & 31)) & 1 : nd_int() & 1; }
static int cannot_raise(uint32_t op) {
  return op == JOP_NOOP || op == JOP_LOAD_NIL || op == JOP_LOAD_TRUE || op == JOP_LOAD_FALSE || op == JOP_LOAD_SELF ||
         op == JOP_LOAD_INTEGER || op == JOP_LOAD_CONSTANT || op == JOP_LOAD_UPVALUE || op == JOP_CLOSURE ||
         op == JOP_MOVE_NEAR || op == JOP_MOVE_FAR || op == JOP_MAKE_ARRAY || op == JOP_MAKE_TUPLE || op == JOP_MAKE_BRACKET_TUPLE;
}
void h_movopt(void) {
  JanetFuncDef def; uint32_t code[NINSTR], orig[NINSTR];
  for (int i = 0; i < NINSTR; i++) { code[i] = nd_u32(); __CPROVER_assume((code[i] & 0x7F) < JOP_INSTRUCTION_COUNT && (code[i] & 0x80) == 0); orig[i] = code[i]; }
  def.bytecode = code; def.bytecode_length = NINSTR; def.slotcount = 256; def.closure_bitset = 0;
  janet_bytecode_movopt(&def);
  for (int i = 0; i < NINSTR; i++) {
    __CPROVER_assert(code[i] == orig[i] || code[i] == JOP_NOOP, "C15 movopt: an instruction is either kept bit for bit or replaced by a noop");
    __CPROVER_assert(code[i] == orig[i] || cannot_raise(orig[i] & 0x7F), "C15 movopt: only instructions that cannot raise (loads, moves, closure, empty aggregates) are ever deleted");
  }
  REACH("movopt returns");
}
