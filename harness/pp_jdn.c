/* C11: print_jdn_one (pp.c), the %j / jdn printer.  "Every value printable in Janet data notation parses back to a deep-equal value"
 * - so the printer must (a) terminate on every value, cyclic ones included, by raising instead of recursing forever, (b) refuse what
 * the notation cannot express, (c) emit exactly the reader's syntax for what it accepts.
 *
 * The function is proved one level at a time: its recursive calls go to a recording stub (value, depth budget, position in the
 * output), the real function is entered once through print_jdn_one__entry (replace_calls2).  Output primitives, janet_description_b
 * (atoms; strings and buffers: units pp.escape.*), janet_buffer_dtostr (numbers: unit num.dtostr) and janet_table_put are stubs that
 * log what was emitted.  JANET_NO_NANBOX configuration. */
#include "prelude.h"
#define PJ(c, msg) __CPROVER_assert(c, "C11 jdn: " msg)
int print_jdn_one__entry(struct pretty *S, Janet x, int depth);
#define LOGCAP 24
enum { L_CHILD = 1000, L_DESC = 2000, L_NUM = 3000 };
int g_log[LOGCAP]; int g_nlog;
static void lg(int v) { __CPROVER_assert(g_nlog < LOGCAP, "ghost log capacity"); g_log[g_nlog++] = v; }
static JanetBuffer g_outbuf; static struct pretty g_S;
/* children */
#define MAXCH 4
int g_nch; JanetType g_ch_type[MAXCH]; uint64_t g_ch_bits[MAXCH]; int g_ch_depth[MAXCH]; int g_ch_ret[MAXCH];
int pj_child_stub(struct pretty *S, Janet x, int depth) {
  PJ(S == &g_S, "the printer state is passed down");
  __CPROVER_assert(g_nch < MAXCH, "ghost child capacity");
  int k = g_nch++;
  g_ch_type[k] = x.type; g_ch_bits[k] = x.as.u64; g_ch_depth[k] = depth;
  lg(L_CHILD + k);
  return g_ch_ret[k];
}
/* output primitives */
void pj_push_u8_stub(JanetBuffer *b, uint8_t c) { PJ(b == &g_outbuf, "output goes to the printer's buffer"); lg(c); }
void pj_push_cstring_stub(JanetBuffer *b, const char *s) { PJ(b == &g_outbuf, "output goes to the printer's buffer"); for (int i = 0; i < 4; i++) { if (!s[i]) return; lg((uint8_t) s[i]); } __CPROVER_assert(0, "cstring longer than the ghost allows"); }
void pj_ensure_stub(JanetBuffer *b, int32_t capacity, int32_t growth) { }
JanetType g_desc_type; uint64_t g_desc_bits; int g_desc_calls;
void pj_description_stub(JanetBuffer *b, Janet x) { PJ(b == &g_outbuf, "output goes to the printer's buffer"); g_desc_calls++; g_desc_type = x.type; g_desc_bits = x.as.u64; lg(L_DESC); }
double g_num; int g_num_calls;
void pj_dtostr_stub(JanetBuffer *b, double x) { PJ(b == &g_outbuf, "output goes to the printer's buffer"); g_num_calls++; g_num = x; lg(L_NUM); }
int g_seen_puts;
void pj_table_put_stub(JanetTable *t, Janet k, Janet v) { g_seen_puts++; }

static void pj_setup(void) {
  g_S.buffer = &g_outbuf; g_S.depth = nd_int(); g_S.indent = 0; g_S.flags = 0; g_S.bufstartlen = 0;
  g_nlog = g_nch = g_desc_calls = g_num_calls = g_seen_puts = 0;
  for (int k = 0; k < MAXCH; k++) g_ch_ret[k] = nd_int() ? 1 : 0;
}
static Janet mk(JanetType t, uint64_t bits) { Janet x; x.as.u64 = bits; x.type = t; return x; }
static Janet mkp(JanetType t, void *p) { Janet x; x.as.u64 = 0; x.as.pointer = p; x.type = t; return x; }
static Janet any_value(void) { int t = nd_int(); __CPROVER_assume(t >= JANET_NUMBER && t <= JANET_POINTER); return mk((JanetType) t, nd_u64()); }
static int xp[LOGCAP]; static Janet want[MAXCH];     /* expected log / expected children (globals: see the note on local arrays in gc_walk.c) */
static int same(int k, Janet x) { return g_ch_type[k] == x.type && g_ch_bits[k] == x.as.u64; }

/* (a) the depth budget: nothing is printed with budget 0, whatever the value */
void h_jdn_depth0(void) {
  pj_setup();
  Janet x = any_value();
  int r = print_jdn_one__entry(&g_S, x, 0);
  PJ(r == 1, "an exhausted depth budget is reported as failure (janet_jdn_ raises), whatever the value");
  PJ(g_nlog == 0 && g_nch == 0, "nothing is printed and nothing is visited once the budget is exhausted");
  REACH("print_jdn_one returns");
}
/* (b) values the notation cannot express; (c) atoms */
void h_jdn_atoms(void) {
  pj_setup();
  Janet x = any_value(); int depth = nd_int(); __CPROVER_assume(depth > 0);
  __CPROVER_assume(x.type != JANET_TUPLE && x.type != JANET_ARRAY && x.type != JANET_TABLE && x.type != JANET_STRUCT && x.type != JANET_SYMBOL && x.type != JANET_KEYWORD);
  if (x.type == JANET_BOOLEAN) x.as.u64 &= 1;
  int r = print_jdn_one__entry(&g_S, x, depth);
  PJ(g_nch == 0, "atoms have no children");
  if (x.type == JANET_FUNCTION || x.type == JANET_CFUNCTION || x.type == JANET_FIBER || x.type == JANET_ABSTRACT || x.type == JANET_POINTER) {
    PJ(r == 1 && g_nlog == 0, "functions, cfunctions, fibers, abstracts and raw pointers have no data notation: refused, nothing printed");
    REACH("jdn: unprintable type refused");
  } else if (x.type == JANET_NUMBER) {
    double d = x.as.number;
    if (__CPROVER_isnand(d) || __CPROVER_isinfd(d)) { PJ(r == 1 && g_nlog == 0, "NaN and the infinities have no numeric literal: refused, nothing printed"); REACH("jdn: non-finite number refused"); }
    else { PJ(r == 0 && g_nlog == 1 && g_log[0] == L_NUM && g_num_calls == 1 && g_num == d, "a finite number is printed by the 17-digit printer janet_buffer_dtostr, with exactly its value"); REACH("jdn: finite number"); }
  } else {
    PJ(r == 0 && g_nlog == 1 && g_log[0] == L_DESC && g_desc_calls == 1 && g_desc_type == x.type && g_desc_bits == x.as.u64, "nil, booleans, strings and buffers are printed by janet_description_b (nil / true / false / escaped literal), exactly once, with the value itself");
    if (x.type == JANET_BUFFER) REACH("jdn: buffer"); if (x.type == JANET_NIL) REACH("jdn: nil");
  }
  REACH("print_jdn_one returns");
}
/* (c) sequences: tuples keep their bracket kind, arrays are @[...]; elements in order, single spaces, every child gets depth - 1 */
#ifndef SEQ_ARRAY
#define SEQ_ARRAY 0
#endif
#if SEQ_ARRAY
#define SEQ_MSG "an array prints as @[e0 e1 ...]: elements in order, separated by one space"
#else
#define SEQ_MSG "a tuple prints as (e0 e1 ...) or [e0 e1 ...] according to its bracket flag - the kind the reader will give it back"
#endif
void h_jdn_seq(void) {
  pj_setup();
  int depth = nd_int(); __CPROVER_assume(depth > 0);
  int32_t n = nd_i32(); __CPROVER_assume(n >= 0 && n <= 3);
  Janet el[3]; for (int i = 0; i < 3; i++) el[i] = any_value();
  Janet x; int bracket = 0;
#if SEQ_ARRAY
  JanetArray *a = malloc(sizeof(JanetArray)); a->data = malloc(3 * sizeof(Janet)); a->count = n; a->capacity = 3; a->gc.flags = nd_i32();
  for (int i = 0; i < 3; i++) a->data[i] = el[i];
  x = mkp(JANET_ARRAY, a);
#else
  JanetTupleHead *h = malloc(sizeof(JanetTupleHead) + 3 * sizeof(Janet)); h->length = n; h->hash = 0; h->gc.flags = nd_i32(); h->sm_line = -1; h->sm_column = -1;
  for (int i = 0; i < 3; i++) ((Janet *) h->data)[i] = el[i];
  bracket = (h->gc.flags & JANET_TUPLE_FLAG_BRACKETCTOR) != 0;
  x = mkp(JANET_TUPLE, (void *) h->data);
#endif
  int r = print_jdn_one__entry(&g_S, x, depth);
  /* expected log */
  int ne = 0; int fail = 0; int visited = 0;
#if SEQ_ARRAY
  xp[ne++] = '@'; xp[ne++] = '[';
#else
  xp[ne++] = bracket ? '[' : '(';
#endif
  for (int i = 0; i < 3; i++) if (i < n && !fail) { if (i) xp[ne++] = ' '; xp[ne++] = L_CHILD + i; visited++; if (g_ch_ret[i]) fail = 1; }
  if (!fail) {
#if SEQ_ARRAY
    xp[ne++] = ']';
#else
    xp[ne++] = bracket ? ']' : ')';
#endif
  }
  PJ(r == fail, "the sequence is refused exactly when one of its elements is, and printing stops at that element");
  PJ(g_nlog == ne, "delimiters, single spaces between elements, nothing else");
  for (int i = 0; i < 8; i++) if (i < ne) PJ(g_log[i] == xp[i], SEQ_MSG);
  PJ(g_nch == visited, "every element up to the first refused one is visited exactly once");
  for (int i = 0; i < 3; i++) if (i < visited) { PJ(same(i, el[i]), "child i is element i"); PJ(g_ch_depth[i] == depth - 1, "every element is printed with a strictly smaller depth budget (cyclic data runs out of budget instead of recursing forever)"); }
  if (n == 3 && !fail) REACH("jdn: three elements printed"); if (n == 0) REACH("jdn: empty sequence"); if (fail && visited == 2) REACH("jdn: second element refused");
#if !SEQ_ARRAY
  if (bracket && n == 1 && !fail) REACH("jdn: bracket tuple");
#endif
  REACH("print_jdn_one returns");
}
/* (c) dictionaries: tables are @{...}, structs {...}; live buckets in bucket order as  key space value, pairs separated by one space */
#ifndef DICT_TABLE
#define DICT_TABLE 0
#endif
#if DICT_TABLE
#define DICT_MSG "a table prints as @{k0 v0 k1 v1 ...}: live buckets in order, empty buckets skipped"
#else
#define DICT_MSG "a struct prints as {k0 v0 k1 v1 ...}: live buckets in order, empty buckets skipped"
#endif
void h_jdn_dict(void) {
  pj_setup();
  int depth = nd_int(); __CPROVER_assume(depth > 0);
  Janet k[2], v[2]; int live[2];
  for (int i = 0; i < 2; i++) { live[i] = nd_int() != 0; k[i] = any_value(); v[i] = any_value(); if (live[i]) __CPROVER_assume(k[i].type != JANET_NIL); else k[i] = mk(JANET_NIL, 0); }
  Janet x;
#if DICT_TABLE
  JanetTable *t = malloc(sizeof(JanetTable)); t->data = malloc(2 * sizeof(JanetKV)); t->capacity = 2; t->count = live[0] + live[1]; t->deleted = 0; t->proto = (JanetTable *) 0; t->gc.flags = nd_i32();
  for (int i = 0; i < 2; i++) { t->data[i].key = k[i]; t->data[i].value = v[i]; }
  x = mkp(JANET_TABLE, t);
#else
  JanetStructHead *h = malloc(sizeof(JanetStructHead) + 2 * sizeof(JanetKV)); h->length = live[0] + live[1]; h->capacity = 2; h->hash = 0; h->proto = (const JanetKV *) 0; h->gc.flags = nd_i32();
  for (int i = 0; i < 2; i++) { ((JanetKV *) h->data)[i].key = k[i]; ((JanetKV *) h->data)[i].value = v[i]; }
  x = mkp(JANET_STRUCT, (void *) h->data);
#endif
  int r = print_jdn_one__entry(&g_S, x, depth);
  int ne = 0; int fail = 0; int c = 0;
#if DICT_TABLE
  xp[ne++] = '@';
#endif
  xp[ne++] = '{';
  int first = 1;
  for (int i = 0; i < 2; i++) if (live[i] && !fail) {
    if (!first) xp[ne++] = ' '; first = 0;
    xp[ne++] = L_CHILD + c; want[c] = k[i]; if (g_ch_ret[c]) fail = 1; c++;
    if (!fail) { xp[ne++] = ' '; xp[ne++] = L_CHILD + c; want[c] = v[i]; if (g_ch_ret[c]) fail = 1; c++; }
  }
  if (!fail) xp[ne++] = '}';
  PJ(r == fail, "the dictionary is refused exactly when one of its keys or values is, and printing stops there");
  PJ(g_nlog == ne, "delimiters, single spaces, nothing else");
  for (int i = 0; i < 10; i++) if (i < ne) PJ(g_log[i] == xp[i], DICT_MSG);
  PJ(g_nch == c, "every key and value up to the first refused one is visited exactly once");
  for (int i = 0; i < MAXCH; i++) if (i < c) { PJ(same(i, want[i]), "children are key, value, key, value in bucket order"); PJ(g_ch_depth[i] == depth - 1, "every key and value is printed with a strictly smaller depth budget"); }
  if (live[0] && live[1] && !fail) REACH("jdn: two entries printed"); if (!live[0] && live[1] && !fail) REACH("jdn: empty bucket skipped"); if (!live[0] && !live[1]) REACH("jdn: empty dictionary");
  if (fail && c == 2) REACH("jdn: a value refused");
  REACH("print_jdn_one returns");
}
/* (a) cyclic data, REAL recursion (no child stub): an array that contains itself and a table that holds itself as a value are refused when
 * the budget runs out, after exactly `depth` levels - the printer never recurses without bound.  (Observation: the `seen` table of struct pretty
 * is written by print_jdn_one - janet_table_put(&S->seen, x, true) for every array and table - but never read: cycles are caught by the depth
 * budget alone, so a shared (non-cyclic) substructure is simply printed twice, which is what a notation without references requires.) */
void h_jdn_cycle(void) {
  pj_setup();
#ifndef CYCLE_TABLE
#define CYCLE_TABLE 0
#endif
  int which = CYCLE_TABLE;       /* constant per unit: a symbolic value type makes symex explore every case at every level */
  JanetArray *a = malloc(sizeof(JanetArray)); a->data = malloc(sizeof(Janet)); a->count = 1; a->capacity = 1; a->gc.flags = 0;
  JanetTable *t = malloc(sizeof(JanetTable)); t->data = malloc(sizeof(JanetKV)); t->capacity = 1; t->count = 1; t->deleted = 0; t->proto = (JanetTable *) 0; t->gc.flags = 0;
  a->data[0] = mkp(JANET_ARRAY, a);
  t->data[0].key = mk(JANET_NUMBER, 0x3ff0000000000000ull); t->data[0].value = mkp(JANET_TABLE, t);
  Janet x = which ? mkp(JANET_TABLE, t) : mkp(JANET_ARRAY, a);
  int r = print_jdn_one(&g_S, x, 3);
  PJ(r == 1, "cyclic data is refused (the depth budget runs out) instead of being followed forever");
  if (!which) {
    PJ(g_nlog == 6, "exactly three levels of the self-containing array were opened");
    for (int i = 0; i < 6; i++) PJ(g_log[i] == ((i & 1) ? '[' : '@'), "exactly three levels of the self-containing array were opened");
  } else {
    PJ(g_nlog == 10, "exactly three levels of the self-containing table were opened (the key of the third level already finds the budget exhausted)");
    for (int i = 0; i < 10; i++) PJ(g_log[i] == ((i % 4) == 0 ? '@' : (i % 4) == 1 ? '{' : (i % 4) == 2 ? L_NUM : ' '), "exactly three levels of the self-containing table were opened");
  }
  REACH("print_jdn_one returns");
}
