/* C13: the written exponent of a numeric literal (janet_scan_number_base, strtod.c). For a decimal literal  D[.F]e[+-]X  the
 * exponent handed to convert() is exactly  (value of X, signed) - (number of fraction digits): every exponent digit counts, also
 * far beyond the double range - a large written exponent may legitimately cancel a long run of leading zeros ("0.000...01e100000").
 * Bounded: mantissa "1", "0.01" or "00.5"-style heads chosen at compile time, exponent of 1..6 decimal digits (every digit string),
 * optional sign. convert() and the mantissa accumulation are recording stubs. */
#include "prelude.h"
#ifndef SX_HEAD
#define SX_HEAD "1"
#define SX_HEADLEN 1
#define SX_FRAC 0
#endif
static int sx_conv_calls; static int32_t sx_exp, sx_base; static int sx_neg;
double sx_convert_stub(int negative, struct BigNat *mant, int32_t base, int32_t exponent) { sx_conv_calls++; sx_exp = exponent; sx_base = base; sx_neg = negative; return 1.0; }
void sx_muladd_stub(struct BigNat *m, uint32_t f, uint32_t t) {}
void sx_free_stub(void *p) {}
void h_scan_exponent(void) {
  static const char head[] = SX_HEAD;
  int k = nd_int(); __CPROVER_assume(k >= 1 && k <= 6);
  int eneg = nd_int() & 1, esign = nd_int() & 1;       /* esign: an explicit sign character is written */
  if (eneg) esign = 1;
  int32_t len = SX_HEADLEN + 1 + esign + k;
  uint8_t *text = malloc((size_t) len); __CPROVER_assume(text != (uint8_t *)0);
  for (int i = 0; i < SX_HEADLEN; i++) text[i] = (uint8_t) head[i];
  text[SX_HEADLEN] = 'e';
  if (esign) text[SX_HEADLEN + 1] = eneg ? '-' : '+';
  int64_t value = 0;
  for (int i = 0; i < 6; i++) if (i < k) { uint8_t d = nd_u8(); __CPROVER_assume(d <= 9); text[SX_HEADLEN + 1 + esign + i] = (uint8_t)('0' + d); value = value * 10 + d; }
  double out; sx_conv_calls = 0;
  int r = janet_scan_number_base(text, len, 0, &out);
  __CPROVER_assert(r == 0 && sx_conv_calls == 1, "scan exponent: a well-formed literal is converted once");
  __CPROVER_assert(sx_base == 10 && sx_neg == 0, "scan exponent: decimal, positive");
  __CPROVER_assert((int64_t) sx_exp == (eneg ? -value : value) - SX_FRAC, "scan exponent: the exponent handed on is exactly the written exponent minus the number of fraction digits (every exponent digit counts)");
  if (value >= 100000) REACH("exponent of six or more digits");
  REACH("literal with an exponent scanned");
}
