/* C01: janet_mark(Janet) - the dispatcher every value edge goes through.  For a value of each heap type the mark routine of that
 * type is called exactly once with the value's pointer; values without heap storage cause no call; at recursion depth 0 the value
 * is not dropped but deferred: janet_gcroot(x) (janet_collect drains those roots afterwards).
 * Compiled in the JANET_NO_NANBOX configuration (pointer <-> Janet packing is opaque to CBMC otherwise). */
#include "gc_mark.h"
Janet g_rt; int g_rt_seen; unsigned g_rt_calls; uint32_t g_depth0;
void janet_gcroot_c(Janet root)
__CPROVER_assigns(g_rt_seen, g_rt_calls)
__CPROVER_ensures(g_rt_seen == (__CPROVER_old(g_rt_seen) || JEQ(root, g_rt)))
__CPROVER_ensures(g_rt_calls == __CPROVER_old(g_rt_calls) + 1u)
;
#define TYPED_CALLS (g_str_calls + g_fn_calls + g_arr_calls + g_tab_calls + g_stc_calls + g_tup_calls + g_buf_calls + g_fib_calls + g_abs_calls)
#define EDGE(T, seen, calls) ((g_depth0 != 0 && x.type == (T)) ==> ((seen) && (calls) == 1u && TYPED_CALLS == 1u))
#define PTR(x) ((const void *) (x).as.pointer)

void janet_mark_spec(Janet x)
__CPROVER_requires(x.type >= JANET_NUMBER && x.type <= JANET_POINTER)
__CPROVER_requires(g_depth0 == depth)
__CPROVER_requires(g_str == PTR(x) && g_fn == PTR(x) && g_arr == PTR(x) && g_tab == PTR(x) && g_stc == PTR(x) && g_tup == PTR(x) && g_buf == PTR(x) && g_fib == PTR(x) && g_abs == PTR(x))
__CPROVER_requires(JEQ(g_rt, x) && !g_rt_seen && g_rt_calls == 0)
__CPROVER_requires(!g_str_seen && !g_fn_seen && !g_arr_seen && !g_tab_seen && !g_stc_seen && !g_tup_seen && !g_buf_seen && !g_fib_seen && !g_abs_seen)
__CPROVER_requires(g_str_calls == 0 && g_fn_calls == 0 && g_arr_calls == 0 && g_tab_calls == 0 && g_stc_calls == 0 && g_tup_calls == 0 && g_buf_calls == 0 && g_fib_calls == 0 && g_abs_calls == 0)
__CPROVER_assigns(depth, g_rt_seen, g_rt_calls, g_str_seen, g_fn_seen, g_arr_seen, g_tab_seen, g_stc_seen, g_tup_seen, g_buf_seen, g_fib_seen, g_abs_seen,
                  g_str_calls, g_fn_calls, g_arr_calls, g_tab_calls, g_stc_calls, g_tup_calls, g_buf_calls, g_fib_calls, g_abs_calls)
/* C01: one edge per heap type */
__CPROVER_ensures(EDGE(JANET_STRING, g_str_seen, g_str_calls))
__CPROVER_ensures(EDGE(JANET_KEYWORD, g_str_seen, g_str_calls))
__CPROVER_ensures(EDGE(JANET_SYMBOL, g_str_seen, g_str_calls))
__CPROVER_ensures(EDGE(JANET_FUNCTION, g_fn_seen, g_fn_calls))
__CPROVER_ensures(EDGE(JANET_ARRAY, g_arr_seen, g_arr_calls))
__CPROVER_ensures(EDGE(JANET_TABLE, g_tab_seen, g_tab_calls))
__CPROVER_ensures(EDGE(JANET_STRUCT, g_stc_seen, g_stc_calls))
__CPROVER_ensures(EDGE(JANET_TUPLE, g_tup_seen, g_tup_calls))
__CPROVER_ensures(EDGE(JANET_BUFFER, g_buf_seen, g_buf_calls))
__CPROVER_ensures(EDGE(JANET_FIBER, g_fib_seen, g_fib_calls))
__CPROVER_ensures(EDGE(JANET_ABSTRACT, g_abs_seen, g_abs_calls))
/* values without collectable storage: nothing is called */
__CPROVER_ensures((x.type == JANET_NUMBER || x.type == JANET_NIL || x.type == JANET_BOOLEAN || x.type == JANET_CFUNCTION || x.type == JANET_POINTER) ==> TYPED_CALLS == 0u)
/* C01/C19: at the recursion limit the value is deferred to the root set, never dropped; otherwise the root set is not touched */
__CPROVER_ensures(g_depth0 == 0 ==> (g_rt_seen && g_rt_calls == 1u && TYPED_CALLS == 0u))
__CPROVER_ensures(g_depth0 != 0 ==> g_rt_calls == 0u)
__CPROVER_ensures(depth == g_depth0)
;

void h_mark_value(void) {
  Janet x; x.type = (JanetType) nd_int(); x.as.u64 = nd_u64();   /* explicit nondet (see gc_walk.c on uninitialised unions) */
  janet_mark(x);
  REACH("janet_mark returns");
}
