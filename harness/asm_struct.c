/* C10 "asm on any data structure ... returns a value or raises a catchable error - never crashes ... or reads or writes outside
 * its input and the objects it creates" and "any function ... having passed bytecode verification": the structure of janet_asm1.
 *
 * The REAL janet_asm1 runs on a symbolic assembly description.  A description is a table/struct whose fields are arbitrary
 * Janet values; the section(s) selected with -DAS_SEC_xxx may be present (nil, a list of up to AS_MAX arbitrary elements, or a
 * non-list value), the other fields are nil.  :bytecode is always allowed to be present (without it nothing is accepted).
 *
 * Contract (from the property):
 *   - every read is inside the description (lists are read below their count, tuples below their length - tuple blocks have
 *     exactly their length, so a read past the end is a pointer-check failure) and every write is inside the block allocated
 *     for it (malloc/realloc are CBMC's models: exact sizes); no signed overflow in any length arithmetic
 *   - status OK  ==> janet_verify was called exactly once, on the returned definition, said 0, and the definition's lengths,
 *                    pointers, slotcount, arity numbers and vararg/structarg flags were not touched afterwards; when janet_verify
 *                    is called every array of the definition is a block of at least length elements and as many instructions were
 *                    stored as bytecode_length says (this is the precondition of the janet_verify contract, unit bytecode.verify)
 *   - status ERROR ==> no definition is handed out (funcdef NULL), only for the outermost assembler
 *   - the four name tables are initialised once and released exactly once on every way out (also before an error is passed to the
 *     parent assembler); entries put into them are integers 0 <= i < INT32_MAX under keys of the right kind (the invariant the
 *     asm.doarg1.* units assume)
 *   - a nested definition is assembled with this assembler as parent
 * Error model: janet_asm_longjmp does not return (the handler after setjmp is exercised by letting _setjmp return 1 with an
 * arbitrary error message: that is the state the handler sees whenever an error is raised later).
 * The nested janet_asm1 call is replaced by the contract proved here: it raises through the parent or returns OK with a fresh definition. */
#include "prelude.h"
#include <stdlib.h>

#ifndef AS_MAX
#define AS_MAX 2
#endif

/* ------------------------------------------------------------------ description model */
enum { K_NAME, K_ARITY, K_MAXARITY, K_MINARITY, K_VARARG, K_STRUCTARG, K_SOURCE, K_SLOTS, K_CONSTANTS, K_CLOSURES, K_DEFS,
       K_BYTECODE, K_SOURCEMAP, K_SYMBOLMAP, K_ENVIRONMENTS, K_N };
static const char *const as_keyname[K_N] = {"name", "arity", "max-arity", "min-arity", "vararg", "structarg", "source", "slots", "constants",
                                            "closures", "defs", "bytecode", "sourcemap", "symbolmap", "environments"};
static Janet as_field[K_N];
static uint8_t as_srcobj[8], as_dummy[16];
static Janet as_subname;
struct as_list { int32_t count; Janet data[AS_MAX]; };
static struct as_list as_lists[K_N];

static int as_streq(const char *a, const char *b) {
    int i = 0;
    while (a[i] && a[i] == b[i]) i++;
    return a[i] == b[i];
}
static int as_keyindex(Janet key) {
    __CPROVER_assert(key.type == JANET_KEYWORD, "asm1: fields are looked up by keyword");
    const char *s = (const char *) key.as.pointer;
    for (int k = 0; k < K_N; k++) if (as_streq(s, as_keyname[k])) return k;
    __CPROVER_assert(0, "asm1: only the documented fields are looked up");
    return 0;
}
static Janet as_nil(void) { Janet n; n.type = JANET_NIL; n.as.u64 = 0; return n; }
static Janet as_num(double d) { Janet n; n.type = JANET_NUMBER; n.as.number = d; return n; }

/* tuple blocks of exactly n elements, one set per list position and use */
#define AS_HEAD JanetGCObject gc; int32_t length; int32_t hash; int32_t sm_line; int32_t sm_column
struct as_tup0 { AS_HEAD; };
struct as_tup1 { AS_HEAD; Janet data[1]; };
struct as_tup2 { AS_HEAD; Janet data[2]; };
struct as_tup3 { AS_HEAD; Janet data[3]; };
struct as_tup4 { AS_HEAD; Janet data[4]; };
struct as_tup5 { AS_HEAD; Janet data[5]; };
static Janet as_any(void) {
    Janet x;
    int ty = nd_int();
    __CPROVER_assume(ty >= JANET_NUMBER && ty <= JANET_POINTER);
    x.type = (JanetType) ty;
    x.as.u64 = nd_u64();
    if (ty == JANET_NUMBER) x.as.number = nd_double();
    else if (ty == JANET_NIL) x.as.u64 = 0;
    else if (ty != JANET_BOOLEAN) x.as.pointer = (void *) as_dummy;      /* opaque object: asm1 has no business looking inside */
    return x;
}
/* a tuple with `len` arbitrary elements: a separate object of exactly that size */
#define AS_MK(n) { struct as_tup##n *h = malloc(sizeof(struct as_tup##n)); h->gc.flags = 0; h->length = n; h->hash = 0; h->sm_line = -1; h->sm_column = -1; \
                   for (int i = 0; i < n; i++) h->data[i] = as_any(); x.as.pointer = h->data; return x; }
static Janet as_tuple(int32_t len) {
    Janet x;
    x.type = JANET_TUPLE;
    if (len == 0) {
        struct as_tup0 *h = malloc(sizeof(struct as_tup0));
        h->gc.flags = 0; h->length = 0; h->hash = 0; h->sm_line = -1; h->sm_column = -1;
        x.as.pointer = (char *) h + offsetof(JanetTupleHead, data);
        return x;
    }
    if (len == 1) AS_MK(1)
    if (len == 2) AS_MK(2)
    if (len == 3) AS_MK(3)
    if (len == 4) AS_MK(4)
    AS_MK(5)
}
/* an element: arbitrary value, or a tuple of 0..5 arbitrary elements (AS_TUPLE_MIN..5 in restricted variants) */
#ifndef AS_TUPLE_MIN
#define AS_TUPLE_MIN 0
#endif
static Janet as_elem(int slot) {
    if (nd_int()) {
        int32_t len = nd_i32();
        __CPROVER_assume(len >= AS_TUPLE_MIN && len <= 5);
        return as_tuple(len);
    }
    Janet x = as_any();
    __CPROVER_assume(x.type != JANET_TUPLE);         /* tuples are made above */
    return x;
}
/* a field that may be a list: nil, a list (array or tuple) of 0..AS_MAX elements, or some other value */
static void as_list_field(int k, int slotbase) {
    int c = nd_int();
    if (c == 0) { as_field[k] = as_nil(); return; }
    if (c == 1) { as_field[k] = as_num(nd_double()); return; }
    int32_t n = nd_i32();
    __CPROVER_assume(n >= 0 && n <= AS_MAX);
    as_lists[k].count = n;
    for (int i = 0; i < AS_MAX; i++) as_lists[k].data[i] = as_elem(slotbase + i);
    as_field[k].type = nd_int() ? JANET_ARRAY : JANET_TUPLE;
    as_field[k].as.pointer = &as_lists[k];
}

/* ------------------------------------------------------------------ ghost state and stubs */
static JanetFuncDef *as_def;            /* definition allocated by the call under proof */
static JanetTable *as_tab[4];
static int as_ntab, as_tab_live[4], as_tab_released[4];
static int as_verify_calls, as_verdict, as_emitted, as_raise_ok;
static JanetFuncDef as_snap;
static JanetAssembler as_parent;          /* the direct parent (if any); its ancestors are as_chain[] */
#ifndef AS_DEPTH
#define AS_DEPTH 2                        /* longest parent chain of the ordinary units */
#endif
/* ancestors are only ever asked for their parent (first member of JanetAssembler): a link is enough, and an access to any
 * other member of an ancestor is a pointer-check failure */
struct as_link { JanetAssembler *parent; };
static struct as_link as_chain[AS_DEPTH > 1 ? AS_DEPTH - 1 : 1];
#define AS_LINK(i) ((JanetAssembler *) &as_chain[i])
static JanetFuncDef as_pdef;
static int as_nested;

static int32_t as_listcount(int k) { return (as_field[k].type == JANET_ARRAY || as_field[k].type == JANET_TUPLE) ? as_lists[k].count : 0; }
void *as_gcalloc_stub(enum JanetMemoryType type, size_t size) {
    __CPROVER_assert(as_def == (void *) 0 && size == sizeof(JanetFuncDef), "asm1: one definition is allocated per call");
    as_def = malloc(sizeof(JanetFuncDef));
    return as_def;
}
JanetTable *as_table_init_stub(JanetTable *t, int32_t cap) {
    __CPROVER_assert(as_ntab < 4, "asm1: four name tables are initialised");
    if (as_ntab < 4) { as_tab[as_ntab] = t; as_tab_live[as_ntab] = 1; as_ntab++; }
    t->count = 0; t->capacity = 0; t->deleted = 0; t->data = (JanetKV *) 0; t->proto = (JanetTable *) 0;
    return t;
}
static int as_tabindex(JanetTable *t) {
    for (int i = 0; i < 4; i++) if (i < as_ntab && as_tab[i] == t) return i;
    return -1;
}
void as_table_deinit_stub(JanetTable *t) {
    int i = as_tabindex(t);
    __CPROVER_assert(i >= 0 && as_tab_live[i], "asm1: only live tables of this assembler are released, each once");
    if (i >= 0) { as_tab_live[i] = 0; as_tab_released[i]++; }
}
void as_table_put_stub(JanetTable *t, Janet key, Janet value) {
    int i = as_tabindex(t);      /* order of initialisation in janet_asm1: labels, slots, envs, defs */
    __CPROVER_assert(i >= 0 && as_tab_live[i], "asm1: names are entered into the live tables of this assembler only");
    __CPROVER_assert(value.type == JANET_NUMBER && value.as.number >= 0.0 && value.as.number < 2147483647.0 && value.as.number == (double)(int32_t) value.as.number,
                     "asm1: table entries are integers 0 <= i < INT32_MAX");
    __CPROVER_assert(i != 0 || key.type == JANET_KEYWORD, "asm1: labels are keywords");
    __CPROVER_assert(i != 1 || key.type == JANET_SYMBOL, "asm1: slot names are symbols");
    __CPROVER_assert(i != 3 || key.type != JANET_NIL, "asm1: definition names are not nil");
}
static Janet as_get(const void *obj, Janet key) {
    int k = as_keyindex(key);
    if (obj == (const void *) as_dummy) {           /* an element of :closures / :defs: only its name is asked for */
        __CPROVER_assert(k == K_NAME, "asm1: only the name of a nested description is read by the parent");
        return as_subname;
    }
    __CPROVER_assert(obj == (const void *) as_srcobj, "asm1: reads the description only");
    return as_field[k];
}
Janet as_table_get_stub(JanetTable *t, Janet key) { return as_get((const void *) t, key); }
Janet as_struct_get_stub(JanetStruct st, Janet key) { return as_get((const void *) st, key); }
const uint8_t *as_csymbol_stub(const char *s) { return (const uint8_t *) s; }
int as_indexed_view_stub(Janet seq, const Janet **data, int32_t *len) {
    if (seq.type != JANET_ARRAY && seq.type != JANET_TUPLE) return 0;
    struct as_list *l = (struct as_list *) seq.as.pointer;
    *data = l->data;
    *len = l->count;
    return 1;
}
int as_keyeq_stub(Janet x, const char *cstring) { return x.type == JANET_KEYWORD ? nd_int() != 0 : 0; }
const uint8_t *as_to_string_stub(Janet x) { return (const uint8_t *) as_dummy; }
const void *as_strbinsearch_stub(const void *tab, size_t tabcount, size_t itemsize, const uint8_t *key) {
    __CPROVER_assert(tab == (const void *) janet_ops && tabcount == sizeof(janet_ops) / sizeof(JanetInstructionDef) && itemsize == sizeof(JanetInstructionDef),
                     "asm1: mnemonics are searched in the whole instruction table");
    int j = nd_int();
    __CPROVER_assume(j >= -1 && j < (int)(sizeof(janet_ops) / sizeof(JanetInstructionDef)));
    return j < 0 ? (const void *) 0 : (const void *) &janet_ops[j];
}
uint32_t as_read_instruction_stub(JanetAssembler *a, const JanetInstructionDef *idef, const Janet *argt) {
    __CPROVER_assert(a->def == as_def && idef >= janet_ops && idef < janet_ops + sizeof(janet_ops) / sizeof(JanetInstructionDef),
                     "asm1: instructions are encoded for this definition with an entry of the instruction table");
    __CPROVER_assert(janet_tuple_length(argt) >= 1, "asm1: an instruction tuple handed to the encoder has a mnemonic");
    int32_t idx = 0;
    for (int i = 0; i < AS_MAX; i++)
        if (i < a->errindex && as_lists[K_BYTECODE].data[i].type != JANET_KEYWORD) idx++;
    __CPROVER_assert(a->errindex >= 0 && a->errindex < as_lists[K_BYTECODE].count && argt == (const Janet *) as_lists[K_BYTECODE].data[a->errindex < AS_MAX ? a->errindex : 0].as.pointer,
                     "asm1: errindex is the position of the instruction in :bytecode");
    __CPROVER_assert(a->bytecode_count == idx, "asm1: bytecode_count is the index of the instruction being assembled = number of non-label elements before it (labels are relative to it)");
    as_emitted++;
    return nd_u32();
}
void as_longjmp_stub(JanetAssembler *a) {
    if (a == &as_parent) {
        __CPROVER_assert(as_ntab == 4 && !as_tab_live[0] && !as_tab_live[1] && !as_tab_live[2] && !as_tab_live[3],
                         "asm1: the name tables are released before an error is passed to the parent assembler");
        REACH("error passed to the parent assembler");
    } else {
        __CPROVER_assert(a->def == as_def, "asm1: errors are raised on the current assembler");
        REACH("asm1 raises");
    }
    __CPROVER_assume(0);
}
int as_setjmp_stub(struct __jmp_buf_tag *env) {
    if (nd_int()) {
        /* the handler as it is entered by any later janet_asm_longjmp: error message arbitrary */
        JanetAssembler *a = (JanetAssembler *)((char *) env - offsetof(JanetAssembler, on_error));
        a->errmessage = (const uint8_t *) nd_ptr();
        as_raise_ok = 1;
        return 1;
    }
    return 0;
}
static int as_truthy(Janet x) { return !(x.type == JANET_NIL || (x.type == JANET_BOOLEAN && !(x.as.u64 & 0x1))); }
static int as_isint(Janet x) { return x.type == JANET_NUMBER && x.as.number >= -2147483648.0 && x.as.number <= 2147483647.0 && x.as.number == (double)(int32_t) x.as.number; }
int as_verify_stub(JanetFuncDef *def) {
    __CPROVER_assert(def == as_def, "asm1: the definition being built is the one verified");
    as_verify_calls++;
    __CPROVER_assert(def->bytecode_length >= 0 && def->bytecode_length <= 0x1FFFFFFF && def->bytecode != (void *) 0 &&
                     __CPROVER_r_ok(def->bytecode, sizeof(uint32_t) * (size_t) def->bytecode_length),
                     "asm1: bytecode is a block of bytecode_length words (precondition of janet_verify)");
    {
        JanetAssembler *a = (JanetAssembler *)((char *) as_tab[0] - offsetof(JanetAssembler, labels));      /* labels is initialised first */
        __CPROVER_assert(as_ntab == 4 && a->def == def && a->bytecode_count == def->bytecode_length, "asm1: exactly bytecode_length instructions were stored");
    }
    __CPROVER_assert(def->constants_length >= 0 && (def->constants_length == 0 || __CPROVER_r_ok(def->constants, sizeof(Janet) * (size_t) def->constants_length)),
                     "asm1: constants is a block of constants_length values");
    __CPROVER_assert(def->defs_length >= 0 && (def->defs_length == 0 || __CPROVER_r_ok(def->defs, sizeof(JanetFuncDef *) * (size_t) def->defs_length)),
                     "asm1: defs is a block of defs_length definitions");
    __CPROVER_assert(def->environments_length >= 0 && (def->environments_length == 0 || __CPROVER_r_ok(def->environments, sizeof(int32_t) * (size_t) def->environments_length)),
                     "asm1: environments is a block of environments_length integers");
    __CPROVER_assert(def->sourcemap == (void *) 0 || __CPROVER_r_ok(def->sourcemap, sizeof(JanetSourceMapping) * (size_t) def->bytecode_length),
                     "asm1: a source map has one entry per instruction");
    __CPROVER_assert(def->symbolmap_length >= 0 && (def->symbolmap_length == 0 || __CPROVER_r_ok(def->symbolmap, sizeof(JanetSymbolMap) * (size_t) def->symbolmap_length)),
                     "asm1: symbolmap is a block of symbolmap_length entries");
    __CPROVER_assert(def->closure_bitset == (void *) 0, "asm1: no closure bitset is claimed");
    __CPROVER_assert(def->constants_length == as_listcount(K_CONSTANTS) && def->environments_length == as_listcount(K_ENVIRONMENTS) &&
                     def->symbolmap_length == as_listcount(K_SYMBOLMAP) &&
                     def->defs_length == (as_field[K_CLOSURES].type != JANET_NIL ? as_listcount(K_CLOSURES) : as_listcount(K_DEFS)),
                     "asm1: constants, environments, symbol map and nested definitions have the lengths of the description's lists");
    /* C09 (asm . disasm round trip): the header of the definition is what the description says - written from the documented
     * meaning of the keys (janet/asm docstring), not from the order of the statements in janet_asm1 */
    {
        int va = as_truthy(as_field[K_VARARG]), sa = as_truthy(as_field[K_STRUCTARG]);
        int32_t ar = as_isint(as_field[K_ARITY]) ? (int32_t) as_field[K_ARITY].as.number : 0;
        __CPROVER_assert(((def->flags & JANET_FUNCDEF_FLAG_VARARG) != 0) == va && ((def->flags & JANET_FUNCDEF_FLAG_STRUCTARG) != 0) == sa,
                         "asm1: the vararg / structarg flags are set exactly when :vararg / :structarg are truthy");
        __CPROVER_assert(def->arity == ar && def->arity >= 0, "asm1: arity is :arity (0 when absent) and not negative");
        __CPROVER_assert(def->min_arity == (as_isint(as_field[K_MINARITY]) ? (int32_t) as_field[K_MINARITY].as.number : ar) &&
                         def->max_arity == (as_isint(as_field[K_MAXARITY]) ? (int32_t) as_field[K_MAXARITY].as.number : ar) &&
                         def->min_arity <= ar && def->max_arity >= ar, "asm1: min-arity <= arity <= max-arity, defaulting to arity");
        __CPROVER_assert((int64_t) def->slotcount >= (int64_t) ar + va, "asm1: slotcount covers the parameters (arity, plus the rest tuple of a vararg function)");
    }
    as_snap = *def;
    as_verdict = nd_int();
    return as_verdict;
}
JanetAssembleResult as_asm1_stub(JanetAssembler *parent, Janet source, int flags) {
    JanetAssembleResult r;
    __CPROVER_assert(parent != (void *) 0 && parent->def == as_def,
                     "asm1: a nested definition is assembled with this assembler as its parent");
#ifdef AS_DEPTH_GUARD
    __CPROVER_assert(AS_DEPTH < JANET_RECURSION_GUARD, "asm1: no nested definition is assembled once the parent chain has JANET_RECURSION_GUARD members");
#endif
    as_nested++;
    if (nd_int()) {             /* the nested assembler raised: control is in the parent's handler, not here */
#if defined(AS_SEC_CLOSURES) && AS_DEPTH < JANET_RECURSION_GUARD
        REACH("nested assembly raises");
#endif
        __CPROVER_assume(0);
    }
    r.funcdef = malloc(sizeof(JanetFuncDef));
    r.error = (const uint8_t *) 0;
    r.status = JANET_ASSEMBLE_OK;
    return r;
}

JanetAssembleResult janet_asm1__entry(JanetAssembler *parent, Janet source, int flags);

/* ------------------------------------------------------------------ entry */
void h_asm1(void) {
    for (int k = 0; k < K_N; k++) as_field[k] = as_nil();
    Janet src;
    src.type = nd_int() ? JANET_TABLE : JANET_STRUCT;
    src.as.pointer = (void *) as_srcobj;
#ifdef AS_SEC_SOURCE_TYPE
    src = as_any();             /* anything at all as the description: only a table or struct is looked into */
    if (src.type == JANET_TABLE || src.type == JANET_STRUCT) src.as.pointer = (void *) as_srcobj;
#endif
#ifdef AS_SEC_HEADER
    as_field[K_NAME] = as_any();
    as_field[K_ARITY] = as_any();
    as_field[K_MAXARITY] = as_any();
    as_field[K_MINARITY] = as_any();
    as_field[K_VARARG] = as_any();
    as_field[K_STRUCTARG] = as_any();
    as_field[K_SOURCE] = as_any();
#ifdef AS_ARITY_BELOW_MAX
    __CPROVER_assume(!(as_field[K_ARITY].type == JANET_NUMBER && as_field[K_ARITY].as.number == 2147483647.0));
#endif
#endif
#ifdef AS_SEC_SLOTS
    as_list_field(K_SLOTS, 0);
#endif
#ifdef AS_SEC_CONSTANTS
    as_list_field(K_CONSTANTS, 0);
#endif
#ifdef AS_SEC_CLOSURES
    as_list_field(K_CLOSURES, 0);
    as_list_field(K_DEFS, 0);
#endif
#ifdef AS_SEC_SOURCEMAP
    as_list_field(K_SOURCEMAP, 0);
#endif
#ifdef AS_SEC_SYMBOLMAP
    as_list_field(K_SYMBOLMAP, 0);
#endif
#ifdef AS_SEC_ENVIRONMENTS
    as_list_field(K_ENVIRONMENTS, 0);
#endif
    as_list_field(K_BYTECODE, AS_MAX);
    as_parent.def = &as_pdef;
#ifdef AS_DEPTH_GUARD
    /* exactly AS_DEPTH assemblers above this one: as_parent -> as_chain[AS_DEPTH-2] -> ... -> as_chain[0] -> NULL.
     * With AS_DEPTH == JANET_RECURSION_GUARD the description must be refused before any nested definition is assembled. */
    for (int i = 0; i < AS_DEPTH - 1; i++) as_chain[i].parent = i ? AS_LINK(i - 1) : (JanetAssembler *) 0;
    as_parent.parent = AS_DEPTH > 1 ? AS_LINK(AS_DEPTH - 2) : (JanetAssembler *) 0;
    JanetAssembler *parent = &as_parent;
#else
    /* no parent, one parent, or a parent with a grandparent (the depth guard counts the chain: unit asm.asm1.depth-guard) */
    as_chain[0].parent = (JanetAssembler *) 0;
    as_parent.parent = nd_int() ? AS_LINK(0) : (JanetAssembler *) 0;
    JanetAssembler *parent = nd_int() ? &as_parent : (JanetAssembler *) 0;
#endif
    as_subname = as_any();

    JanetAssembleResult res = janet_asm1__entry(parent, src, nd_int());

    __CPROVER_assert(as_ntab == 4 && as_tab_released[0] == 1 && as_tab_released[1] == 1 && as_tab_released[2] == 1 && as_tab_released[3] == 1,
                     "asm1: the four name tables are released exactly once before returning");
    if (res.status == JANET_ASSEMBLE_OK) {
        __CPROVER_assert(as_verify_calls == 1 && as_verdict == 0, "asm1: a definition is returned only after janet_verify accepted it");
        __CPROVER_assert(res.funcdef == as_def && res.error == (void *) 0, "asm1: the definition returned is the one that was verified");
        JanetFuncDef *d = res.funcdef;
        __CPROVER_assert(d->bytecode == as_snap.bytecode && d->bytecode_length == as_snap.bytecode_length && d->constants == as_snap.constants &&
                         d->constants_length == as_snap.constants_length && d->defs == as_snap.defs && d->defs_length == as_snap.defs_length &&
                         d->environments == as_snap.environments && d->environments_length == as_snap.environments_length &&
                         d->slotcount == as_snap.slotcount && d->arity == as_snap.arity && d->min_arity == as_snap.min_arity && d->max_arity == as_snap.max_arity &&
                         d->symbolmap == as_snap.symbolmap && d->symbolmap_length == as_snap.symbolmap_length && d->sourcemap == as_snap.sourcemap &&
                         ((d->flags ^ as_snap.flags) & (JANET_FUNCDEF_FLAG_VARARG | JANET_FUNCDEF_FLAG_STRUCTARG)) == 0,
                         "asm1: nothing janet_verify looked at is changed after verification");
        __CPROVER_assert(!as_raise_ok, "asm1: the error handler does not produce a definition");
#if AS_DEPTH < JANET_RECURSION_GUARD
        REACH("asm1 returns a verified definition");
#endif
    } else {
        __CPROVER_assert(res.status == JANET_ASSEMBLE_ERROR && res.funcdef == (void *) 0, "asm1: an error result carries no definition");
        __CPROVER_assert(parent == (void *) 0, "asm1: only the outermost assembler returns an error result (nested ones pass it to their parent)");
#ifndef AS_DEPTH_GUARD            /* with a parent the error goes to the parent instead */
        REACH("asm1 returns an error result");
#endif
    }
}
