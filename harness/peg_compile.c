/* C12 / C10: the PEG COMPILER (peg.c) establishes wf_peg - the well-formedness predicate of compiled PEG bytecode that
 * every matcher unit peg.rule.* ASSUMES (harness/peg_wf.h). Plain mode, one unit per emitter / reader / spec_* function.
 *
 * Modular structure (each contract is PROVED for the real body in its own unit and USED as a stub in the others):
 *
 *   janet_v_grow   (vector.c, not under proof here) -> h_v_grow: a moved, exactly-sized block with the old words copied
 *                  and the old block freed (any pointer kept across a push dangles and is caught by the pointer checks)
 *   peg_compile1   -> h_compile1: the contract of a sub-pattern compilation:
 *                       requires  the caller has ALREADY reserved every word of its own rule (count >= n0 + size)
 *                       ensures   appends 0..SUBMAX arbitrary (well-formed) rule words behind the current end and MOVES
 *                                 the vector; words below the old count are preserved; returns a rule index < new count
 *                                 (an instruction start: a cached / referenced / forward-referenced rule or a new one);
 *                                 may register constants and tags and switch has_backref on
 *   emit_tag       -> h_emit_tag:      returns a tag in 1..255                     (proved: peg.wf.emit_tag)
 *   emit_constant  -> h_emit_constant: returns the old constant count, count + 1   (proved: peg.wf.emit_constant)
 *   peg_getnat     -> h_getnat:        returns an int32 >= 0                       (proved: peg.wf.getnat)
 *   peg_getinteger -> h_getinteger:    returns any int32                           (proved: peg.wf.getinteger)
 *
 * Postcondition of every spec_* unit ("the rule words appended are EXACTLY what wf_peg demands"):
 *   - the rule starts at n0 = the bytecode count at entry (peg_compile1 returns that index as the rule's address)
 *   - opcode word and every argument word present (count >= n0 + size) and equal to: the values returned by the
 *     sub-compilations of the right argv element / emit_constant / emit_tag / the numbers read from the pattern
 *   - the wf_peg clause of peg_wf.h (peg_wf_instr, the very text the matcher units assume) holds at n0 of the FINAL
 *     bytecode with num_constants = final constant count and instruction starts = {n0} + the returned sub-rule indices
 *   - no word below n0 changes (ghost index), no uninitialised word is left in the reserved block
 *   - bad arity / negative / out-of-range numbers do not return normally (raise)
 */
#include "prelude.h"
#include <stdlib.h>

void exit(int c) { __CPROVER_assert(0, "C12 compiler: internal janet_assert never fires (exit)"); __CPROVER_assume(0); }
void abort(void) { __CPROVER_assert(0, "C12 compiler: internal janet_assert (\"bad reserve\") never fires"); __CPROVER_assume(0); }

#ifndef BCAP
#define BCAP 24          /* harness bound: words in the bytecode vector */
#endif
/* the blocks behind the vectors have the constant size BCAP (a symbolic allocation size costs 8M SAT variables); units
 * that prove 'no write past the reserved block' define VEC_EXACT and get blocks of exactly `cap` elements */
#ifdef VEC_EXACT
#define VEC_ALLOC(cap) (cap)
#else
#define VEC_ALLOC(cap) BCAP
#endif
#define N0MAX 4          /* words already emitted at entry (symbolic contents) */
#define SUBMAX 3         /* words a sub-compilation appends */
#define NLOG 4
#define ARGN 4

/* ---- ghost state ---- */
static Builder *G_B;
static uint32_t g_n0;
static int g_cc; static Janet g_c_arg[NLOG]; static uint32_t g_c_ret[NLOG]; static uint32_t g_c_at[NLOG]; static uint32_t g_appended;
static int g_tc; static Janet g_t_arg[NLOG]; static uint32_t g_t_ret[NLOG];
static int g_kc; static Janet g_k_arg[NLOG]; static uint32_t g_k_ret[NLOG]; static uint32_t g_nconst;
static int g_nc; static Janet g_n_arg[NLOG]; static int32_t g_n_ret[NLOG];
static int g_ic; static Janet g_i_arg[NLOG]; static int32_t g_i_ret[NLOG];
static int g_moves;
static uint32_t g_len;   /* final bytecode length = PEG_BLEN of wf_peg */
#define PEG_BLEN g_len
#include "peg_wf.h"

#define JEQ(a, b) ((a).type == (b).type && (a).as.u64 == (b).as.u64)
#define CNT(v) ((v) ? ((int32_t *)(v))[-1] : 0)

/* ---- the vector primitive: contract of janet_v_grow, adversarial form (always moves, exact size) ---- */
static uint32_t *vec_u32(int32_t cap, int32_t cnt) {
  uint32_t *p = malloc(sizeof(uint32_t) * (size_t)(2 + VEC_ALLOC(cap))); __CPROVER_assume(p != NULL);
  p[0] = (uint32_t) cap; p[1] = (uint32_t) cnt;
  return p + 2;
}
void *h_v_grow(void *v, int32_t increment, int32_t itemsize) {
  __CPROVER_assert(increment >= 1, "janet_v_grow.pre: positive increment");
  int32_t cnt = CNT(v);
  __CPROVER_assume(cnt + increment < BCAP);                       /* harness bound */
  int32_t cap = nd_i32(); __CPROVER_assume(cap > cnt + increment && cap <= BCAP);
  g_moves++;
  if (itemsize == (int32_t) sizeof(uint32_t)) {
    uint32_t *old = (uint32_t *) v;
    uint32_t *p = vec_u32(cap, cnt);
    for (int32_t k = 0; k < BCAP; k++) if (k < cnt) p[k] = old[k];
    if (old) free(old - 2);
    return p;
  } else {
    __CPROVER_assert(itemsize == (int32_t) sizeof(Janet), "janet_v_grow: only the bytecode and constant vectors grow");
    Janet *old = (Janet *) v;
    char *raw = malloc(2 * sizeof(int32_t) + sizeof(Janet) * (size_t) VEC_ALLOC(cap)); __CPROVER_assume(raw != NULL);
    ((int32_t *) raw)[0] = cap; ((int32_t *) raw)[1] = cnt;
    Janet *p = (Janet *)(raw + 2 * sizeof(int32_t));
    for (int32_t k = 0; k < BCAP; k++) if (k < cnt) p[k] = old[k];
    if (old) free((char *) old - 2 * sizeof(int32_t));
    return p;
  }
}

/* ---- contract stubs ---- */
uint32_t h_compile1(Builder *b, Janet peg) {
  __CPROVER_assert(b == G_B, "peg_compile1.pre: the builder");
  __CPROVER_assert(g_cc < NLOG, "harness: sub-compilation log large enough");
  int32_t cnt = CNT(b->bytecode);
  g_c_arg[g_cc] = peg; g_c_at[g_cc] = (uint32_t) cnt;
  int32_t k = nd_i32(); __CPROVER_assume(k >= 0 && k <= SUBMAX && cnt + k < BCAP && cnt + k > 0);
  int32_t cap = nd_i32(); __CPROVER_assume(cap > cnt + k && cap <= BCAP);
  uint32_t *old = b->bytecode;
  uint32_t *p = vec_u32(cap, cnt + k);               /* new words: arbitrary (malloc'ed memory is nondeterministic) */
  for (int32_t j = 0; j < BCAP; j++) if (j < cnt) p[j] = old[j];
  if (old) free(old - 2);
  b->bytecode = p; g_appended += (uint32_t) k;
  if (nd_int()) b->has_backref = 1;
  uint32_t grow = nd_u32(); __CPROVER_assume(grow <= 2); g_nconst += grow;
  uint32_t ret = nd_u32(); __CPROVER_assume(ret < (uint32_t)(cnt + k));
  g_c_ret[g_cc] = ret; g_cc++;
  return ret;
}
uint32_t h_emit_tag(Builder *b, Janet t) {
  __CPROVER_assert(b == G_B && g_tc < NLOG, "emit_tag.pre: the builder");
  uint32_t tag = nd_u32(); __CPROVER_assume(tag >= 1 && tag <= 255);
  g_t_arg[g_tc] = t; g_t_ret[g_tc] = tag; g_tc++;
  return tag;
}
uint32_t h_emit_constant(Builder *b, Janet c) {
  __CPROVER_assert(b == G_B && g_kc < NLOG, "emit_constant.pre: the builder");
  g_k_arg[g_kc] = c; g_k_ret[g_kc] = g_nconst; g_kc++;
  return g_nconst++;
}
int32_t h_getnat(Builder *b, Janet x) {
  __CPROVER_assert(b == G_B && g_nc < NLOG, "peg_getnat.pre: the builder");
  int32_t n = nd_i32(); __CPROVER_assume(n >= 0);
  g_n_arg[g_nc] = x; g_n_ret[g_nc] = n; g_nc++;
  return n;
}
int32_t h_getinteger(Builder *b, Janet x) {
  __CPROVER_assert(b == G_B && g_ic < NLOG, "peg_getinteger.pre: the builder");
  int32_t n = nd_i32();
  g_i_arg[g_ic] = x; g_i_ret[g_ic] = n; g_ic++;
  return n;
}
void h_arity(int32_t argc, int32_t min, int32_t max) {           /* janet_arity (capi.c): raises unless min <= argc <= max */
  if (argc < min || (max >= 0 && argc > max)) __CPROVER_assume(0);
}

/* ---- builder with N0 symbolic words already emitted ---- */
static uint32_t g_fidx, g_fval;                      /* frame ghost: one arbitrary old word */
static void mk_builder(Builder *b) {
  int32_t n0 = nd_i32(); __CPROVER_assume(n0 >= 0 && n0 <= N0MAX);
  if (n0 == 0 && nd_int()) b->bytecode = NULL;
  else { int32_t cap = nd_i32(); __CPROVER_assume(cap > n0 && cap <= BCAP); b->bytecode = vec_u32(cap, n0); }
  b->constants = NULL; b->grammar = NULL; b->default_grammar = NULL; b->tags = NULL;
  b->depth = nd_int(); b->nexttag = nd_u32(); b->has_backref = nd_int() ? 1 : 0;
  G_B = b; g_n0 = (uint32_t) n0; g_nconst = nd_u32(); __CPROVER_assume(g_nconst <= 3);
  g_cc = g_tc = g_kc = g_nc = g_ic = 0; g_appended = 0; g_moves = 0;
  g_fidx = nd_u32(); __CPROVER_assume(n0 == 0 || g_fidx < (uint32_t) n0);
  g_fval = n0 ? b->bytecode[g_fidx] : 0;
}
/* common postcondition: size words of this rule at n0, sub-compilations only after the reservation, frame, wf clause */
static void post_rule(Builder *b, uint32_t size) {
  const uint32_t *bc = b->bytecode;
  uint32_t n0 = g_n0;
  g_len = (uint32_t) CNT(bc);
  __CPROVER_assert(g_len >= n0 + size, "C12 wf: opcode word and every argument word of the rule are present in the bytecode");
  __CPROVER_assert(g_len == n0 + size + g_appended, "C12 wf: the rule occupies exactly its own words at the entry count; nothing else is appended but the sub-rules");
  __CPROVER_assert(n0 == 0 || bc[g_fidx] == g_fval, "C12 wf: rules emitted earlier are not overwritten");
  uint8_t isstart[BCAP];
  for (int k = 0; k < BCAP; k++) isstart[k] = 0;
  isstart[n0] = 1;
  for (int j = 0; j < NLOG; j++) if (j < g_cc) {
    __CPROVER_assert(g_c_at[j] >= n0 + size, "C12 wf: the whole rule is reserved before any sub-pattern is compiled (the rule index handed to the caller is the rule's own)");
    isstart[g_c_ret[j]] = 1;
  }
  __CPROVER_assert(peg_wf_instr(bc, isstart, n0, g_nconst), "C12 wf: wf_peg clause of the emitted opcode holds (peg_wf.h: what the matcher assumes)");
}
#define W(k) (G_B->bytecode[g_n0 + (k)])
#define OKW(c, msg) __CPROVER_assert(c, "C12 wf words: " msg)
#define SUBRULE(j, a) (g_cc > (j) && JEQ(g_c_arg[j], a))
#define TAGOF(j, a) (g_tc > (j) && JEQ(g_t_arg[j], a))

#ifdef SPEC_FN
void h_spec(void) {
  Builder B; Janet argv[ARGN];
  int32_t argc = nd_i32(); __CPROVER_assume(argc >= 0 && argc <= ARGN);
  mk_builder(&B);
  int backref0 = B.has_backref; uint32_t nconst0 = g_nconst;
#ifdef SHAPE_variadic
  __CPROVER_assume(argc <= 3);                                   /* bound */
#endif

  SPEC_FN(&B, argc, argv);

  const uint32_t *bc = B.bytecode; uint32_t n0 = g_n0;
#if defined(SHAPE_onerule)
  /* [op, rule] : ! not error(1) to thru drop only-tags */
  post_rule(&B, 2);
  OKW(argc == 1, "exactly one argument, else raise");
  OKW(W(0) == OP, "opcode");
  OKW(g_cc == 1 && SUBRULE(0, argv[0]) && W(1) == g_c_ret[0], "rule word = index returned by compiling the argument");
  REACH("spec returns (one rule)");
#elif defined(SHAPE_error)
  post_rule(&B, 2);
  OKW(argc <= 1, "at most one argument, else raise");
  OKW(W(0) == RULE_ERROR, "opcode");
  OKW(g_cc == 1 && W(1) == g_c_ret[0], "rule word = index returned by compiling the argument");
  OKW(argc == 0 || JEQ(g_c_arg[0], argv[0]), "(error patt) compiles patt");
  OKW(argc == 1 || (g_c_arg[0].type == JANET_NUMBER && g_c_arg[0].as.number == 0.0), "(error) compiles the pattern 0");
  if (argc == 0) REACH("spec_error returns (no argument)");
  if (argc == 1) REACH("spec_error returns (one argument)");
#elif defined(SHAPE_branch)
  /* [op, rule_a, rule_b] : if if-not lenprefix sub til split */
  post_rule(&B, 3);
  OKW(argc == 2, "exactly two arguments, else raise");
  OKW(W(0) == OP, "opcode");
  OKW(g_cc == 2 && SUBRULE(0, argv[0]) && W(1) == g_c_ret[0], "first rule word = index returned by compiling argument 0");
  OKW(SUBRULE(1, argv[1]) && W(2) == g_c_ret[1], "second rule word = index returned by compiling argument 1");
  REACH("spec returns (two rules)");
#elif defined(SHAPE_between)
  /* [RULE_BETWEEN, lo, hi, rule] : between some any at-least at-most opt repeat */
  post_rule(&B, 4);
  OKW(argc == BT_ARGC, "fixed arity, else raise");
  OKW(W(0) == RULE_BETWEEN, "opcode");
  OKW(g_nc == BT_NATS, "one peg_getnat per count in the pattern (negative / non-integer counts raise)");
  OKW(BT_NATS < 1 || JEQ(g_n_arg[0], argv[0]), "first count read from argument 0");
  OKW(BT_NATS < 2 || JEQ(g_n_arg[1], argv[1]), "second count read from argument 1");
  OKW(W(1) == (uint32_t)(BT_LO), "lo word as given by the pattern");
  OKW(W(2) == (uint32_t)(BT_HI), "hi word as given by the pattern");
  OKW(g_cc == 1 && SUBRULE(0, argv[BT_ARGC - 1]) && W(3) == g_c_ret[0], "rule word = index returned by compiling the last argument");
#ifdef BT_ORDERED
  OKW(W(1) <= W(2), "between: min <= max, else raise");
#endif
  REACH("spec returns (between)");
#elif defined(SHAPE_cap1)
  /* [op, rule, tag] : capture accumulate group unref */
  post_rule(&B, 3);
  OKW(argc == 1 || argc == 2, "one or two arguments, else raise");
  OKW(W(0) == OP, "opcode");
  OKW(g_cc == 1 && SUBRULE(0, argv[0]) && W(1) == g_c_ret[0], "rule word = index returned by compiling argument 0");
  OKW(argc == 2 ? (g_tc == 1 && TAGOF(0, argv[1]) && W(2) == g_t_ret[0]) : (g_tc == 0 && W(2) == 0), "tag word = emit_tag(argument 1) or 0");
  OKW(W(2) <= 255, "tag fits the one-byte tag stack");
  if (argc == 1) REACH("spec returns (untagged)");
  if (argc == 2) REACH("spec returns (tagged)");
#elif defined(SHAPE_tag1)
  /* [op, tag] : position line column backmatch */
  post_rule(&B, 2);
  OKW(argc == 0 || argc == 1, "zero or one argument, else raise");
  OKW(W(0) == OP, "opcode");
  OKW(argc == 1 ? (g_tc == 1 && TAGOF(0, argv[0]) && W(1) == g_t_ret[0]) : (g_tc == 0 && W(1) == 0), "tag word = emit_tag(argument 0) or 0");
  OKW(g_cc == 0, "no sub-pattern");
#ifdef SETS_BACKREF
  OKW(B.has_backref == 1, "the peg is marked as using back-references (the matcher then records tagged captures)");
#else
  OKW(B.has_backref == backref0, "has_backref untouched");
#endif
  if (argc == 0) REACH("spec returns (untagged)");
  if (argc == 1) REACH("spec returns (tagged)");
#elif defined(SHAPE_reference)
  post_rule(&B, 3);
  OKW(argc == 1 || argc == 2, "one or two arguments, else raise");
  OKW(W(0) == RULE_GETTAG, "opcode");
  OKW(g_tc == argc && TAGOF(0, argv[0]) && W(1) == g_t_ret[0], "search tag = emit_tag(argument 0)");
  OKW(argc == 2 ? (TAGOF(1, argv[1]) && W(2) == g_t_ret[1]) : W(2) == 0, "tag word = emit_tag(argument 1) or 0");
  OKW(B.has_backref == 1, "the peg is marked as using back-references");
  if (argc == 1) REACH("spec_reference returns (untagged)");
  if (argc == 2) REACH("spec_reference returns (tagged)");
#elif defined(SHAPE_argument)
  post_rule(&B, 3);
  OKW(argc == 1 || argc == 2, "one or two arguments, else raise");
  OKW(W(0) == RULE_ARGUMENT, "opcode");
  OKW(g_nc == 1 && JEQ(g_n_arg[0], argv[0]) && W(1) == (uint32_t) g_n_ret[0] && (int32_t) W(1) >= 0, "argument index = peg_getnat(argument 0): never negative");
  OKW(argc == 2 ? (g_tc == 1 && TAGOF(0, argv[1]) && W(2) == g_t_ret[0]) : (g_tc == 0 && W(2) == 0), "tag word = emit_tag(argument 1) or 0");
  if (argc == 1) REACH("spec_argument returns (untagged)");
  if (argc == 2) REACH("spec_argument returns (tagged)");
#elif defined(SHAPE_constant)
  post_rule(&B, 3);
  OKW(argc == 1 || argc == 2, "one or two arguments, else raise");
  OKW(W(0) == RULE_CONSTANT, "opcode");
  OKW(g_kc == 1 && JEQ(g_k_arg[0], argv[0]) && W(1) == g_k_ret[0] && W(1) < g_nconst, "constant word = index returned by emit_constant(argument 0), below num_constants");
  OKW(argc == 2 ? (g_tc == 1 && TAGOF(0, argv[1]) && W(2) == g_t_ret[0]) : (g_tc == 0 && W(2) == 0), "tag word = emit_tag(argument 1) or 0");
  if (argc == 1) REACH("spec_constant returns (untagged)");
  if (argc == 2) REACH("spec_constant returns (tagged)");
#elif defined(SHAPE_replace)
  /* [op, rule, constant, tag] : replace cmt */
  post_rule(&B, 4);
  OKW(argc == 2 || argc == 3, "two or three arguments, else raise");
  OKW(W(0) == OP, "opcode");
  OKW(g_cc == 1 && SUBRULE(0, argv[0]) && W(1) == g_c_ret[0], "rule word = index returned by compiling argument 0");
  OKW(g_kc == 1 && JEQ(g_k_arg[0], argv[1]) && W(2) == g_k_ret[0] && W(2) < g_nconst, "constant word = index returned by emit_constant(argument 1), below num_constants");
  OKW(argc == 3 ? (g_tc == 1 && TAGOF(0, argv[2]) && W(3) == g_t_ret[0]) : (g_tc == 0 && W(3) == 0), "tag word = emit_tag(argument 2) or 0");
#ifdef NEEDS_FUNCTION
  OKW(argv[1].type == JANET_FUNCTION || argv[1].type == JANET_CFUNCTION, "cmt: the constant is a function or C function, else raise (the matcher calls it)");
#endif
  if (argc == 2) REACH("spec returns (untagged)");
  if (argc == 3) REACH("spec returns (tagged)");
#elif defined(SHAPE_nth)
  post_rule(&B, 4);
  OKW(argc == 2 || argc == 3, "two or three arguments, else raise");
  OKW(W(0) == RULE_NTH, "opcode");
  OKW(g_nc == 1 && JEQ(g_n_arg[0], argv[0]) && W(1) == (uint32_t) g_n_ret[0] && (int32_t) W(1) >= 0, "index word = peg_getnat(argument 0): never negative");
  OKW(g_cc == 1 && SUBRULE(0, argv[1]) && W(2) == g_c_ret[0], "rule word = index returned by compiling argument 1");
  OKW(argc == 3 ? (g_tc == 1 && TAGOF(0, argv[2]) && W(3) == g_t_ret[0]) : (g_tc == 0 && W(3) == 0), "tag word = emit_tag(argument 2) or 0");
  if (argc == 2) REACH("spec_nth returns (untagged)");
  if (argc == 3) REACH("spec_nth returns (tagged)");
#elif defined(SHAPE_capture_number)
  post_rule(&B, 4);
  OKW(argc >= 1 && argc <= 3, "one to three arguments, else raise");
  OKW(W(0) == RULE_CAPTURE_NUM, "opcode");
  OKW(g_cc == 1 && SUBRULE(0, argv[0]) && W(1) == g_c_ret[0], "rule word = index returned by compiling argument 0");
  OKW(W(2) == 0 || (W(2) >= 2 && W(2) <= 36), "base word is 0 (default) or 2..36, else raise");
  OKW(argc >= 2 && argv[1].type != JANET_NIL ? (argv[1].type == JANET_NUMBER && argv[1].as.number == (double) W(2) && W(2) != 0) : W(2) == 0, "base word as given by the pattern");
  OKW(argc == 3 ? (g_tc == 1 && TAGOF(0, argv[2]) && W(3) == g_t_ret[0]) : (g_tc == 0 && W(3) == 0), "tag word = emit_tag(argument 2) or 0");
  if (argc == 1) REACH("spec_capture_number returns (no base)");
  if (argc == 2) REACH("spec_capture_number returns (base)");
  if (argc == 3) REACH("spec_capture_number returns (base, tag)");
#elif defined(SHAPE_readint)
  post_rule(&B, 3);
  OKW(argc == 1 || argc == 2, "one or two arguments, else raise");
  OKW(W(0) == RULE_READINT, "opcode");
  OKW(g_nc == 1 && JEQ(g_n_arg[0], argv[0]) && (W(1) & 0xFu) == (uint32_t) g_n_ret[0] && g_n_ret[0] <= 8, "width = peg_getnat(argument 0) in 0..8, else raise");
  OKW((W(1) & ~0xFu) == RI_MASK, "signedness / endianness flags of this reader, nothing else in the word");
  OKW(argc == 2 ? (g_tc == 1 && TAGOF(0, argv[1]) && W(2) == g_t_ret[0]) : (g_tc == 0 && W(2) == 0), "tag word = emit_tag(argument 1) or 0");
  if (argc == 1) REACH("spec_readint returns (untagged)");
  if (argc == 2) REACH("spec_readint returns (tagged)");
#elif defined(SHAPE_look)
  post_rule(&B, 3);
  OKW(argc == 1 || argc == 2, "one or two arguments, else raise");
  OKW(W(0) == RULE_LOOK, "opcode");
  OKW(argc == 2 ? (g_ic == 1 && JEQ(g_i_arg[0], argv[0]) && W(1) == (uint32_t) g_i_ret[0]) : (g_ic == 0 && W(1) == 0), "offset word = peg_getinteger(argument 0) or 0");
  OKW(g_cc == 1 && SUBRULE(0, argv[argc - 1]) && W(2) == g_c_ret[0], "rule word = index returned by compiling the last argument");
  if (argc == 1) REACH("spec_look returns (no offset)");
  if (argc == 2) REACH("spec_look returns (offset)");
#elif defined(SHAPE_variadic)
  /* [op, len, rules...] : sequence choice */
  post_rule(&B, 2 + (uint32_t) argc);
  OKW(W(0) == OP, "opcode");
  OKW(W(1) == (uint32_t) argc, "length word = number of sub-patterns");
  OKW(g_cc == argc, "one sub-compilation per argument");
  { int32_t j = nd_i32();
    if (j >= 0 && j < argc) OKW(JEQ(g_c_arg[j], argv[j]) && W(2 + j) == g_c_ret[j], "every rule slot is patched with the index returned by compiling that argument (no reserved 0 left)"); }
  if (argc == 0) REACH("spec_variadic returns (empty)");
  if (argc == 3) REACH("spec_variadic returns (three sub-patterns)");
#else
#error "no SHAPE"
#endif
  (void) bc; (void) n0; (void) nconst0; (void) backref0;
}
#endif
