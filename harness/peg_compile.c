/* C12 / C10: the PEG COMPILER (peg.c) establishes wf_peg - the well-formedness predicate of compiled PEG bytecode that
 * every matcher unit peg.rule.* ASSUMES (harness/peg_wf.h). Plain mode, one unit per emitter / reader / spec_* function.
 *
 * Modular structure (each contract is PROVED for the real body in its own unit and USED as a stub in the others):
 *
 *   janet_v_grow   (vector.c, not under proof here) -> h_v_grow: a moved, exactly-sized block with the old words copied
 *                  and the old block freed (any pointer kept across a push dangles and is caught by the pointer checks)
 *   peg_compile1   -> h_compile1: the contract of a sub-pattern compilation:
 *                       requires  the caller has ALREADY reserved every word of its own rule (count >= n0 + size)
 *                       ensures   appends 0..SUBMAX arbitrary (well-formed) rule words behind the current end and MOVES
 *                                 the vector; words below the old count are preserved; returns a rule index < new count
 *                                 (an instruction start: a cached / referenced / forward-referenced rule or a new one);
 *                                 may register constants and tags and switch has_backref on
 *   emit_tag       -> h_emit_tag:      returns a tag in 1..255                     (proved: peg.wf.emit_tag)
 *   emit_constant  -> h_emit_constant: returns the old constant count, count + 1   (proved: peg.wf.emit_constant)
 *   peg_getnat     -> h_getnat:        returns an int32 >= 0                       (proved: peg.wf.getnat)
 *   peg_getinteger -> h_getinteger:    returns any int32                           (proved: peg.wf.getinteger)
 *
 * Postcondition of every spec_* unit ("the rule words appended are EXACTLY what wf_peg demands"):
 *   - the rule starts at n0 = the bytecode count at entry (peg_compile1 returns that index as the rule's address)
 *   - opcode word and every argument word present (count >= n0 + size) and equal to: the values returned by the
 *     sub-compilations of the right argv element / emit_constant / emit_tag / the numbers read from the pattern
 *   - the wf_peg clause of peg_wf.h (peg_wf_instr, the very text the matcher units assume) holds at n0 of the FINAL
 *     bytecode with num_constants = final constant count and instruction starts = {n0} + the returned sub-rule indices
 *   - no word below n0 changes (ghost index), no uninitialised word is left in the reserved block
 *   - bad arity / negative / out-of-range numbers do not return normally (raise)
 */
#include "prelude.h"
#include <stdlib.h>

void exit(int c) { __CPROVER_assert(0, "C12 compiler: internal janet_assert never fires (exit)"); __CPROVER_assume(0); }
void abort(void) { __CPROVER_assert(0, "C12 compiler: internal janet_assert (\"bad reserve\") never fires"); __CPROVER_assume(0); }

#ifndef BCAP
#define BCAP 24          /* harness bound: words in the bytecode vector */
#endif
/* the blocks behind the vectors have the constant size BCAP (a symbolic allocation size costs 8M SAT variables); units
 * that prove 'no write past the reserved block' define VEC_EXACT and get blocks of exactly `cap` elements */
#ifdef VEC_EXACT
#define VEC_ALLOC(cap) (cap)
#else
#define VEC_ALLOC(cap) BCAP
#endif
#ifndef N0MAX
#define N0MAX 3          /* words already emitted at entry (symbolic contents): 0 or N0MAX */
#endif
#ifndef SUBMAX
#define SUBMAX 3         /* words a sub-compilation appends */
#endif
#define NLOG 4
#define ARGN 4

/* ---- ghost state ---- */
static Builder *G_B;
static uint32_t g_n0;
static int g_cc; static Janet g_c_arg[NLOG]; static uint32_t g_c_ret[NLOG]; static uint32_t g_c_at[NLOG]; static uint32_t g_appended;
static int g_tc; static Janet g_t_arg[NLOG]; static uint32_t g_t_ret[NLOG];
static int g_kc; static Janet g_k_arg[NLOG]; static uint32_t g_k_ret[NLOG]; static uint32_t g_nconst;
static int g_nc; static Janet g_n_arg[NLOG]; static int32_t g_n_ret[NLOG];
static int g_ic; static Janet g_i_arg[NLOG]; static int32_t g_i_ret[NLOG];
static int g_moves;
static uint32_t g_len;   /* final bytecode length = PEG_BLEN of wf_peg */
#define PEG_BLEN g_len
#include "peg_wf.h"

#define JEQ(a, b) ((a).type == (b).type && (a).as.u64 == (b).as.u64)
#define CNT(v) ((v) ? ((int32_t *)(v))[-1] : 0)

/* ---- the vector primitive: contract of janet_v_grow, adversarial form (always moves, exact size) ---- */
static uint32_t *vec_u32(int32_t cap, int32_t cnt) {
  uint32_t *p = malloc(sizeof(uint32_t) * (size_t)(2 + VEC_ALLOC(cap))); __CPROVER_assume(p != NULL);
  p[0] = (uint32_t) cap; p[1] = (uint32_t) cnt;
  return p + 2;
}
void *h_v_grow(void *v, int32_t increment, int32_t itemsize) {
  __CPROVER_assert(increment >= 1, "janet_v_grow.pre: positive increment");
  int32_t cnt = CNT(v);
  __CPROVER_assume(cnt + increment < BCAP);                       /* harness bound */
#ifdef GROW_MOVES
  int32_t cap = cnt + increment + 1;          /* minimal growth: the vector moves at EVERY push (and symex stays deterministic) */
#else
  int32_t cap = nd_i32(); __CPROVER_assume(cap > cnt + increment && cap <= BCAP);
#endif
  g_moves++;
#ifndef GROW_MOVES
  /* cheap form used by the spec_* units (there the vector is moved by every sub-compilation instead): an existing block
   * is enlarged in place, as realloc may do; the units of reserve / emit_bytes / spec_variadic use the moving form */
  if (v != NULL) { ((int32_t *) v)[-2] = cap; return v; }
#endif
  if (itemsize == (int32_t) sizeof(uint32_t)) {
    uint32_t *old = (uint32_t *) v;
    uint32_t *p = vec_u32(cap, cnt);
    for (int32_t k = 0; k < BCAP; k++) if (k < cnt) p[k] = old[k];
    if (old) free(old - 2);
    return p;
  } else {
    __CPROVER_assert(itemsize == (int32_t) sizeof(Janet), "janet_v_grow: only the bytecode and constant vectors grow");
    Janet *old = (Janet *) v;
    char *raw = malloc(2 * sizeof(int32_t) + sizeof(Janet) * (size_t) VEC_ALLOC(cap)); __CPROVER_assume(raw != NULL);
    ((int32_t *) raw)[0] = cap; ((int32_t *) raw)[1] = cnt;
    Janet *p = (Janet *)(raw + 2 * sizeof(int32_t));
    for (int32_t k = 0; k < BCAP; k++) if (k < cnt) p[k] = old[k];
    if (old) free((char *) old - 2 * sizeof(int32_t));
    return p;
  }
}

/* ---- contract stubs ---- */
uint32_t h_compile1(Builder *b, Janet peg) {
  __CPROVER_assert(b == G_B, "peg_compile1.pre: the builder");
  __CPROVER_assert(g_cc < NLOG, "harness: sub-compilation log large enough");
  int32_t cnt = CNT(b->bytecode);
  g_c_arg[g_cc] = peg; g_c_at[g_cc] = (uint32_t) cnt;
  int32_t k = nd_i32(); __CPROVER_assume(k >= 0 && k <= SUBMAX && cnt + k < BCAP && cnt + k > 0);
  int32_t cap = nd_i32(); __CPROVER_assume(cap > cnt + k && cap <= BCAP);
  uint32_t *old = b->bytecode;
  uint32_t *p = vec_u32(cap, cnt + k);               /* new words: arbitrary (malloc'ed memory is nondeterministic) */
  for (int32_t j = 0; j < BCAP; j++) if (j < cnt) p[j] = old[j];
  if (old) free(old - 2);
  b->bytecode = p; g_appended += (uint32_t) k;
  if (nd_int()) b->has_backref = 1;
  uint32_t grow = nd_u32(); __CPROVER_assume(grow <= 2); g_nconst += grow;
  uint32_t ret = nd_u32(); __CPROVER_assume(ret < (uint32_t)(cnt + k));
  g_c_ret[g_cc] = ret; g_cc++;
  return ret;
}
uint32_t h_emit_tag(Builder *b, Janet t) {
  __CPROVER_assert(b == G_B && g_tc < NLOG, "emit_tag.pre: the builder");
  uint32_t tag = nd_u32(); __CPROVER_assume(tag >= 1 && tag <= 255);
  g_t_arg[g_tc] = t; g_t_ret[g_tc] = tag; g_tc++;
  return tag;
}
uint32_t h_emit_constant(Builder *b, Janet c) {
  __CPROVER_assert(b == G_B && g_kc < NLOG, "emit_constant.pre: the builder");
  g_k_arg[g_kc] = c; g_k_ret[g_kc] = g_nconst; g_kc++;
  return g_nconst++;
}
int32_t h_getnat(Builder *b, Janet x) {
  __CPROVER_assert(b == G_B && g_nc < NLOG, "peg_getnat.pre: the builder");
  int32_t n = nd_i32(); __CPROVER_assume(n >= 0);
  g_n_arg[g_nc] = x; g_n_ret[g_nc] = n; g_nc++;
  return n;
}
int32_t h_getinteger(Builder *b, Janet x) {
  __CPROVER_assert(b == G_B && g_ic < NLOG, "peg_getinteger.pre: the builder");
  int32_t n = nd_i32();
  g_i_arg[g_ic] = x; g_i_ret[g_ic] = n; g_ic++;
  return n;
}
void h_arity(int32_t argc, int32_t min, int32_t max) {           /* janet_arity (capi.c): raises unless min <= argc <= max */
  if (argc < min || (max >= 0 && argc > max)) __CPROVER_assume(0);
}

/* ---- builder with N0 symbolic words already emitted ---- */
static uint32_t g_fidx, g_fval;                      /* frame ghost: one arbitrary old word */
/* n0 and the initial capacity are CONSTANTS per call site (h_spec splits into cases): with a symbolic count every push of
 * reserve() forks into grow / no grow and every index into the vector is symbolic (10x the solving time) */
static void mk_builder(Builder *b, int32_t n0, int32_t cap) {
  if (cap == 0) b->bytecode = NULL;
  else b->bytecode = vec_u32(cap, n0);
  b->constants = NULL; b->grammar = NULL; b->default_grammar = NULL; b->tags = NULL;
  b->depth = nd_int(); __CPROVER_assume(b->depth >= 0 && b->depth <= JANET_RECURSION_GUARD);   /* builder invariant */
  b->nexttag = nd_u32(); b->has_backref = nd_int() ? 1 : 0;
  G_B = b; g_n0 = (uint32_t) n0; g_nconst = nd_u32(); __CPROVER_assume(g_nconst <= 3);
  g_cc = g_tc = g_kc = g_nc = g_ic = 0; g_appended = 0; g_moves = 0;
  g_fidx = nd_u32(); __CPROVER_assume(n0 == 0 || g_fidx < (uint32_t) n0);
  g_fval = n0 ? b->bytecode[g_fidx] : 0;
}
/* common postcondition: size words of this rule at n0, sub-compilations only after the reservation, frame, wf clause */
static void post_rule(Builder *b, uint32_t size) {
  const uint32_t *bc = b->bytecode;
  uint32_t n0 = g_n0;
  g_len = (uint32_t) CNT(bc);
  __CPROVER_assert(g_len >= n0 + size, "C12 wf: opcode word and every argument word of the rule are present in the bytecode");
  __CPROVER_assert(g_len == n0 + size + g_appended, "C12 wf: the rule occupies exactly its own words at the entry count; nothing else is appended but the sub-rules");
  __CPROVER_assert(n0 == 0 || bc[g_fidx] == g_fval, "C12 wf: rules emitted earlier are not overwritten");
  uint8_t isstart[BCAP];
  for (int k = 0; k < BCAP; k++) isstart[k] = 0;
  isstart[n0] = 1;
  for (int j = 0; j < NLOG; j++) if (j < g_cc) {
    __CPROVER_assert(g_c_at[j] >= n0 + size, "C12 wf: the whole rule is reserved before any sub-pattern is compiled (the rule index handed to the caller is the rule's own)");
    isstart[g_c_ret[j]] = 1;
  }
  __CPROVER_assert(peg_wf_instr(bc, isstart, n0, g_nconst), "C12 wf: wf_peg clause of the emitted opcode holds (peg_wf.h: what the matcher assumes)");
}
#define W(k) (G_B->bytecode[g_n0 + (k)])
#define OKW(c, msg) __CPROVER_assert(c, "C12 wf words: " msg)
#define SUBRULE(j, a) (g_cc > (j) && JEQ(g_c_arg[j], a))
#define TAGOF(j, a) (g_tc > (j) && JEQ(g_t_arg[j], a))

#if defined(SPEC_FN) && !defined(SHAPE_range) && !defined(SHAPE_set)
static void spec_case(int32_t n0c, int32_t capc) {
  Builder B; Janet argv[ARGN];
  int32_t argc = nd_i32(); __CPROVER_assume(argc >= 0 && argc <= ARGN);
  mk_builder(&B, n0c, capc);
  int backref0 = B.has_backref; uint32_t nconst0 = g_nconst;
#ifdef SHAPE_variadic
  __CPROVER_assume(argc <= 3);                                   /* bound */
#endif

  SPEC_FN(&B, argc, argv);

  const uint32_t *bc = B.bytecode; uint32_t n0 = g_n0;
#if defined(SHAPE_onerule)
  /* [op, rule] : ! not error(1) to thru drop only-tags */
  post_rule(&B, 2);
  OKW(argc == 1, "exactly one argument, else raise");
  OKW(W(0) == OP, "opcode");
  OKW(g_cc == 1 && SUBRULE(0, argv[0]) && W(1) == g_c_ret[0], "rule word = index returned by compiling the argument");
  REACH("spec returns (one rule)");
#elif defined(SHAPE_error)
  post_rule(&B, 2);
  OKW(argc <= 1, "at most one argument, else raise");
  OKW(W(0) == RULE_ERROR, "opcode");
  OKW(g_cc == 1 && W(1) == g_c_ret[0], "rule word = index returned by compiling the argument");
  OKW(argc == 0 || JEQ(g_c_arg[0], argv[0]), "(error patt) compiles patt");
  OKW(argc == 1 || (g_c_arg[0].type == JANET_NUMBER && g_c_arg[0].as.number == 0.0), "(error) compiles the pattern 0");
  if (argc == 0) REACH("spec_error returns (no argument)");
  if (argc == 1) REACH("spec_error returns (one argument)");
#elif defined(SHAPE_branch)
  /* [op, rule_a, rule_b] : if if-not lenprefix sub til split */
  post_rule(&B, 3);
  OKW(argc == 2, "exactly two arguments, else raise");
  OKW(W(0) == OP, "opcode");
  OKW(g_cc == 2 && SUBRULE(0, argv[0]) && W(1) == g_c_ret[0], "first rule word = index returned by compiling argument 0");
  OKW(SUBRULE(1, argv[1]) && W(2) == g_c_ret[1], "second rule word = index returned by compiling argument 1");
  REACH("spec returns (two rules)");
#elif defined(SHAPE_between)
  /* [RULE_BETWEEN, lo, hi, rule] : between some any at-least at-most opt repeat */
  post_rule(&B, 4);
  OKW(argc == BT_ARGC, "fixed arity, else raise");
  OKW(W(0) == RULE_BETWEEN, "opcode");
  OKW(g_nc == BT_NATS, "one peg_getnat per count in the pattern (negative / non-integer counts raise)");
  OKW(BT_NATS < 1 || JEQ(g_n_arg[0], argv[0]), "first count read from argument 0");
  OKW(BT_NATS < 2 || JEQ(g_n_arg[1], argv[1]), "second count read from argument 1");
  OKW(W(1) == (uint32_t)(BT_LO), "lo word as given by the pattern");
  OKW(W(2) == (uint32_t)(BT_HI), "hi word as given by the pattern");
  OKW(g_cc == 1 && SUBRULE(0, argv[BT_ARGC - 1]) && W(3) == g_c_ret[0], "rule word = index returned by compiling the last argument");
#ifdef BT_ORDERED
  OKW(W(1) <= W(2), "between: min <= max, else raise");
#endif
  REACH("spec returns (between)");
#elif defined(SHAPE_cap1)
  /* [op, rule, tag] : capture accumulate group unref */
  post_rule(&B, 3);
  OKW(argc == 1 || argc == 2, "one or two arguments, else raise");
  OKW(W(0) == OP, "opcode");
  OKW(g_cc == 1 && SUBRULE(0, argv[0]) && W(1) == g_c_ret[0], "rule word = index returned by compiling argument 0");
  OKW(argc == 2 ? (g_tc == 1 && TAGOF(0, argv[1]) && W(2) == g_t_ret[0]) : (g_tc == 0 && W(2) == 0), "tag word = emit_tag(argument 1) or 0");
  OKW(W(2) <= 255, "tag fits the one-byte tag stack");
  if (argc == 1) REACH("spec returns (untagged)");
  if (argc == 2) REACH("spec returns (tagged)");
#elif defined(SHAPE_tag1)
  /* [op, tag] : position line column backmatch */
  post_rule(&B, 2);
  OKW(argc == 0 || argc == 1, "zero or one argument, else raise");
  OKW(W(0) == OP, "opcode");
  OKW(argc == 1 ? (g_tc == 1 && TAGOF(0, argv[0]) && W(1) == g_t_ret[0]) : (g_tc == 0 && W(1) == 0), "tag word = emit_tag(argument 0) or 0");
  OKW(g_cc == 0, "no sub-pattern");
#ifdef SETS_BACKREF
  OKW(B.has_backref == 1, "the peg is marked as using back-references (the matcher then records tagged captures)");
#else
  OKW(B.has_backref == backref0, "has_backref untouched");
#endif
  if (argc == 0) REACH("spec returns (untagged)");
  if (argc == 1) REACH("spec returns (tagged)");
#elif defined(SHAPE_reference)
  post_rule(&B, 3);
  OKW(argc == 1 || argc == 2, "one or two arguments, else raise");
  OKW(W(0) == RULE_GETTAG, "opcode");
  OKW(g_tc == argc && TAGOF(0, argv[0]) && W(1) == g_t_ret[0], "search tag = emit_tag(argument 0)");
  OKW(argc == 2 ? (TAGOF(1, argv[1]) && W(2) == g_t_ret[1]) : W(2) == 0, "tag word = emit_tag(argument 1) or 0");
  OKW(B.has_backref == 1, "the peg is marked as using back-references");
  if (argc == 1) REACH("spec_reference returns (untagged)");
  if (argc == 2) REACH("spec_reference returns (tagged)");
#elif defined(SHAPE_argument)
  post_rule(&B, 3);
  OKW(argc == 1 || argc == 2, "one or two arguments, else raise");
  OKW(W(0) == RULE_ARGUMENT, "opcode");
  OKW(g_nc == 1 && JEQ(g_n_arg[0], argv[0]) && W(1) == (uint32_t) g_n_ret[0] && (int32_t) W(1) >= 0, "argument index = peg_getnat(argument 0): never negative");
  OKW(argc == 2 ? (g_tc == 1 && TAGOF(0, argv[1]) && W(2) == g_t_ret[0]) : (g_tc == 0 && W(2) == 0), "tag word = emit_tag(argument 1) or 0");
  if (argc == 1) REACH("spec_argument returns (untagged)");
  if (argc == 2) REACH("spec_argument returns (tagged)");
#elif defined(SHAPE_constant)
  post_rule(&B, 3);
  OKW(argc == 1 || argc == 2, "one or two arguments, else raise");
  OKW(W(0) == RULE_CONSTANT, "opcode");
  OKW(g_kc == 1 && JEQ(g_k_arg[0], argv[0]) && W(1) == g_k_ret[0] && W(1) < g_nconst, "constant word = index returned by emit_constant(argument 0), below num_constants");
  OKW(argc == 2 ? (g_tc == 1 && TAGOF(0, argv[1]) && W(2) == g_t_ret[0]) : (g_tc == 0 && W(2) == 0), "tag word = emit_tag(argument 1) or 0");
  if (argc == 1) REACH("spec_constant returns (untagged)");
  if (argc == 2) REACH("spec_constant returns (tagged)");
#elif defined(SHAPE_replace)
  /* [op, rule, constant, tag] : replace cmt */
  post_rule(&B, 4);
  OKW(argc == 2 || argc == 3, "two or three arguments, else raise");
  OKW(W(0) == OP, "opcode");
  OKW(g_cc == 1 && SUBRULE(0, argv[0]) && W(1) == g_c_ret[0], "rule word = index returned by compiling argument 0");
  OKW(g_kc == 1 && JEQ(g_k_arg[0], argv[1]) && W(2) == g_k_ret[0] && W(2) < g_nconst, "constant word = index returned by emit_constant(argument 1), below num_constants");
  OKW(argc == 3 ? (g_tc == 1 && TAGOF(0, argv[2]) && W(3) == g_t_ret[0]) : (g_tc == 0 && W(3) == 0), "tag word = emit_tag(argument 2) or 0");
#ifdef NEEDS_FUNCTION
  OKW(argv[1].type == JANET_FUNCTION || argv[1].type == JANET_CFUNCTION, "cmt: the constant is a function or C function, else raise (the matcher calls it)");
#endif
  if (argc == 2) REACH("spec returns (untagged)");
  if (argc == 3) REACH("spec returns (tagged)");
#elif defined(SHAPE_nth)
  post_rule(&B, 4);
  OKW(argc == 2 || argc == 3, "two or three arguments, else raise");
  OKW(W(0) == RULE_NTH, "opcode");
  OKW(g_nc == 1 && JEQ(g_n_arg[0], argv[0]) && W(1) == (uint32_t) g_n_ret[0] && (int32_t) W(1) >= 0, "index word = peg_getnat(argument 0): never negative");
  OKW(g_cc == 1 && SUBRULE(0, argv[1]) && W(2) == g_c_ret[0], "rule word = index returned by compiling argument 1");
  OKW(argc == 3 ? (g_tc == 1 && TAGOF(0, argv[2]) && W(3) == g_t_ret[0]) : (g_tc == 0 && W(3) == 0), "tag word = emit_tag(argument 2) or 0");
  if (argc == 2) REACH("spec_nth returns (untagged)");
  if (argc == 3) REACH("spec_nth returns (tagged)");
#elif defined(SHAPE_capture_number)
  post_rule(&B, 4);
  OKW(argc >= 1 && argc <= 3, "one to three arguments, else raise");
  OKW(W(0) == RULE_CAPTURE_NUM, "opcode");
  OKW(g_cc == 1 && SUBRULE(0, argv[0]) && W(1) == g_c_ret[0], "rule word = index returned by compiling argument 0");
  OKW(W(2) == 0 || (W(2) >= 2 && W(2) <= 36), "base word is 0 (default) or 2..36, else raise");
  OKW(argc >= 2 && argv[1].type != JANET_NIL ? (argv[1].type == JANET_NUMBER && argv[1].as.number == (double) W(2) && W(2) != 0) : W(2) == 0, "base word as given by the pattern");
  OKW(argc == 3 ? (g_tc == 1 && TAGOF(0, argv[2]) && W(3) == g_t_ret[0]) : (g_tc == 0 && W(3) == 0), "tag word = emit_tag(argument 2) or 0");
  if (argc == 1) REACH("spec_capture_number returns (no base)");
  if (argc == 2) REACH("spec_capture_number returns (base)");
  if (argc == 3) REACH("spec_capture_number returns (base, tag)");
#elif defined(SHAPE_readint)
  post_rule(&B, 3);
  OKW(argc == 1 || argc == 2, "one or two arguments, else raise");
  OKW(W(0) == RULE_READINT, "opcode");
  OKW(g_nc == 1 && JEQ(g_n_arg[0], argv[0]) && (W(1) & 0xFu) == (uint32_t) g_n_ret[0] && g_n_ret[0] <= 8, "width = peg_getnat(argument 0) in 0..8, else raise");
  OKW((W(1) & ~0xFu) == RI_MASK, "signedness / endianness flags of this reader, nothing else in the word");
  OKW(argc == 2 ? (g_tc == 1 && TAGOF(0, argv[1]) && W(2) == g_t_ret[0]) : (g_tc == 0 && W(2) == 0), "tag word = emit_tag(argument 1) or 0");
  if (argc == 1) REACH("spec_readint returns (untagged)");
  if (argc == 2) REACH("spec_readint returns (tagged)");
#elif defined(SHAPE_look)
  post_rule(&B, 3);
  OKW(argc == 1 || argc == 2, "one or two arguments, else raise");
  OKW(W(0) == RULE_LOOK, "opcode");
  OKW(argc == 2 ? (g_ic == 1 && JEQ(g_i_arg[0], argv[0]) && W(1) == (uint32_t) g_i_ret[0]) : (g_ic == 0 && W(1) == 0), "offset word = peg_getinteger(argument 0) or 0");
  OKW(g_cc == 1 && SUBRULE(0, argv[argc - 1]) && W(2) == g_c_ret[0], "rule word = index returned by compiling the last argument");
  if (argc == 1) REACH("spec_look returns (no offset)");
  if (argc == 2) REACH("spec_look returns (offset)");
#elif defined(SHAPE_variadic)
  /* [op, len, rules...] : sequence choice */
  post_rule(&B, 2 + (uint32_t) argc);
  OKW(W(0) == OP, "opcode");
  OKW(W(1) == (uint32_t) argc, "length word = number of sub-patterns");
  OKW(g_cc == argc, "one sub-compilation per argument");
  { int32_t j = nd_i32();
    if (j >= 0 && j < argc) OKW(JEQ(g_c_arg[j], argv[j]) && W(2 + j) == g_c_ret[j], "every rule slot is patched with the index returned by compiling that argument (no reserved 0 left)"); }
  if (argc == 0) REACH("spec_variadic returns (empty)");
  if (argc == 3) REACH("spec_variadic returns (three sub-patterns)");
#else
#error "no SHAPE"
#endif
  (void) bc; (void) n0; (void) nconst0; (void) backref0;
}
/* initial vector: absent / empty with room / N0MAX arbitrary words and full (first push must grow) / N0MAX words with room */
void h_spec(void) {
  int c = nd_int();
  if (c == 0) spec_case(0, 0);
  else if (c == 1) spec_case(0, BCAP);
  else if (c == 2) spec_case(N0MAX, N0MAX + 1);
  else spec_case(N0MAX, BCAP);
}
#endif

/* =====================================================================================================================
 * LEAF UNITS: the emitters and readers whose contracts the spec_* units use
 * ===================================================================================================================== */
static uint32_t veclen(const uint32_t *v) { return (uint32_t) CNT(v); }

#ifdef LEAF_reserve
/* reserve(b, size): returns {b, n0, size}; exactly size ZERO words appended at n0 (no uninitialised word in the reserved
 * block); earlier words preserved although the vector moves at every growth */
static void reserve_case(int32_t n0c, int32_t capc) {
  Builder B; mk_builder(&B, n0c, capc);
  int32_t size = nd_i32(); __CPROVER_assume(size >= 0 && size <= 9);
  Reserve r = reserve(&B, size);
  g_len = veclen(B.bytecode);
  __CPROVER_assert(r.builder == &B && r.index == g_n0 && r.size == size, "C12 reserve: the reservation names the builder, the old count as rule index and the size");
  __CPROVER_assert(g_len == g_n0 + (uint32_t) size, "C12 reserve: exactly size words appended");
  uint32_t k = nd_u32();
  if (k < (uint32_t) size) __CPROVER_assert(B.bytecode[g_n0 + k] == 0, "C12 reserve: every reserved word is initialised (0)");
  __CPROVER_assert(g_n0 == 0 || B.bytecode[g_fidx] == g_fval, "C12 reserve: rules emitted earlier are preserved across the growth of the vector");
  __CPROVER_assert(size == 0 || CNT(B.bytecode) < ((int32_t *) B.bytecode)[-2], "C12 reserve: count stays below the capacity of the block");
  if (size == 9) REACH("reserve returns (9 words)");
  if (size == 0) REACH("reserve returns (0 words)");
}
void h_reserve(void) {
  int c = nd_int();
  if (c == 0) reserve_case(0, 0); else if (c == 1) reserve_case(N0MAX, N0MAX + 1); else reserve_case(N0MAX, N0MAX + 4);
}
#endif

#ifdef LEAF_emit_rule
/* emit_rule(r, op, n, body) with a reservation made earlier (index + size <= count): writes op and the n body words into
 * exactly the reserved words - nothing else changes, the vector does not move, count unchanged. emit_1/2/3 = n 1..3. */
void h_emit_rule(void) {
  Builder B; mk_builder(&B, 12, BCAP);
  uint32_t snap[12];
  for (int k = 0; k < 12; k++) snap[k] = B.bytecode[k];
  uint32_t *vec0 = B.bytecode;
  Reserve r; r.builder = &B; r.index = nd_u32(); r.size = nd_i32();
  __CPROVER_assume(r.size >= 1 && r.size <= 9 && r.index <= 12 && r.index + (uint32_t) r.size <= 12);   /* a reservation of `reserve` */
  uint32_t op = nd_u32(); uint32_t body[8]; uint32_t a1 = nd_u32(), a2 = nd_u32(), a3 = nd_u32();
#if EMIT_N == 8
  int32_t n = 8; __CPROVER_assume(r.size == 9);            /* the bitmap of RULE_SET */
  emit_rule(r, (int32_t) op, n, body);
#elif EMIT_N == 1
  int32_t n = 1; __CPROVER_assume(r.size == 2); body[0] = a1;
  emit_1(r, op, a1);
#elif EMIT_N == 2
  int32_t n = 2; __CPROVER_assume(r.size == 3); body[0] = a1; body[1] = a2;
  emit_2(r, op, a1, a2);
#elif EMIT_N == 3
  int32_t n = 3; __CPROVER_assume(r.size == 4); body[0] = a1; body[1] = a2; body[2] = a3;
  emit_3(r, op, a1, a2, a3);
#endif
  __CPROVER_assert(B.bytecode == vec0 && CNT(B.bytecode) == 12, "C12 emit_rule: the vector is neither moved nor resized");
  __CPROVER_assert(B.bytecode[r.index] == op, "C12 emit_rule: opcode word stored at the reserved index");
  uint32_t j = nd_u32();
  if (j < (uint32_t) n) __CPROVER_assert(B.bytecode[r.index + 1 + j] == body[j], "C12 emit_rule: argument word j stored at index + 1 + j (every reserved word is filled, in order)");
  uint32_t f = nd_u32();
  if (f < 12 && (f < r.index || f >= r.index + (uint32_t) r.size)) __CPROVER_assert(B.bytecode[f] == snap[f], "C12 emit_rule: no word outside the reserved block is written");
  REACH("emit_rule returns");
}
#endif

#ifdef LEAF_emit_bytes
/* emit_bytes(b, op, len, bytes): [op, len, ceil(len/4) data words]; data bytes = the literal, padding bytes 0; the copy
 * stays inside the words just pushed; wf_peg clause of RULE_LITERAL */
#define LMAX 9
static uint8_t g_bytes[LMAX]; static int32_t g_blen; static int g_copied;
void *h_memcpy(void *dst, const void *src, size_t n) {
  uint32_t cnt = veclen(G_B->bytecode);
  __CPROVER_assert(n == (size_t) g_blen && src == (const void *) g_bytes, "C12 emit_bytes: copies exactly len bytes of the literal");
  __CPROVER_assert(dst == (void *)(G_B->bytecode + g_n0 + 2), "C12 emit_bytes: data starts two words behind the opcode, in the CURRENT vector");
  __CPROVER_assert(g_n0 + 2 + (n + 3) / 4 <= cnt, "C12 emit_bytes: no write past the words reserved for the literal");
  for (int k = 0; k < LMAX; k++) if ((size_t) k < n) ((uint8_t *) dst)[k] = ((const uint8_t *) src)[k];
  g_copied++;
  return dst;
}
static void bytes_case(int32_t n0c, int32_t capc) {
  Builder B; mk_builder(&B, n0c, capc);
  g_blen = nd_i32(); __CPROVER_assume(g_blen >= 0 && g_blen <= LMAX); g_copied = 0;
  emit_bytes(&B, RULE_LITERAL, g_blen, g_bytes);
  const uint32_t *bc = B.bytecode; uint32_t n0 = g_n0; uint32_t words = ((uint32_t) g_blen + 3) / 4;
  g_len = veclen(bc);
  __CPROVER_assert(g_len == n0 + 2 + words, "C12 emit_bytes: opcode word, length word and ceil(len/4) data words appended");
  __CPROVER_assert(bc[n0] == RULE_LITERAL && bc[n0 + 1] == (uint32_t) g_blen, "C12 emit_bytes: opcode and length words");
  __CPROVER_assert(g_copied == 1, "C12 emit_bytes: one copy");
  uint32_t k = nd_u32();
  const uint8_t *data = (const uint8_t *)(bc + n0 + 2);
  if (k < (uint32_t) g_blen) __CPROVER_assert(data[k] == g_bytes[k], "C12 emit_bytes: data byte k = literal byte k (word packing in memory order, as the matcher's memcmp reads it)");
  if (k >= (uint32_t) g_blen && k < 4 * words) __CPROVER_assert(data[k] == 0, "C12 emit_bytes: padding bytes of the last data word are 0 (no uninitialised byte reaches the image)");
  __CPROVER_assert(n0 == 0 || bc[g_fidx] == g_fval, "C12 emit_bytes: rules emitted earlier are preserved");
  uint8_t isstart[BCAP]; for (int q = 0; q < BCAP; q++) isstart[q] = 0; isstart[n0] = 1;
  __CPROVER_assert(peg_wf_instr(bc, isstart, n0, 0), "C12 wf: wf_peg clause of RULE_LITERAL (length word consistent with the words present)");
  if (g_blen == 0) REACH("emit_bytes returns (empty literal)");
  if (g_blen == 5) REACH("emit_bytes returns (5 bytes, 2 data words)");
  if (g_blen == 8) REACH("emit_bytes returns (8 bytes, no padding)");
}
void h_emit_bytes(void) {
  int c = nd_int();
  if (c == 0) bytes_case(0, 0); else if (c == 1) bytes_case(N0MAX, N0MAX + 1); else bytes_case(N0MAX, BCAP);
}
#endif

#ifdef LEAF_emit_constant
/* emit_constant(b, c): returns the old constant count; the constant is stored at that index; count + 1; older constants
 * preserved across the growth of the vector */
static void const_case(int32_t c0, int32_t cap) {
  Builder B; mk_builder(&B, 0, 0);
  Janet kold;
  if (cap == 0) B.constants = NULL;
  else {
    char *raw = malloc(2 * sizeof(int32_t) + sizeof(Janet) * BCAP); __CPROVER_assume(raw != NULL);
    ((int32_t *) raw)[0] = cap; ((int32_t *) raw)[1] = c0; B.constants = (Janet *)(raw + 2 * sizeof(int32_t));
  }
  uint32_t f = nd_u32(); __CPROVER_assume(c0 == 0 || f < (uint32_t) c0);
  if (c0) kold = B.constants[f];
  Janet c; c.type = nd_int(); c.as.u64 = nd_u64();
  uint32_t idx = emit_constant(&B, c);
  __CPROVER_assert(idx == (uint32_t) c0, "C12 emit_constant: returns the old constant count");
  __CPROVER_assert(CNT(B.constants) == c0 + 1 && idx < (uint32_t) CNT(B.constants), "C12 emit_constant: one constant added - the returned index is below num_constants");
  __CPROVER_assert(JEQ(B.constants[idx], c), "C12 emit_constant: the constant is stored at the returned index");
  __CPROVER_assert(c0 == 0 || JEQ(B.constants[f], kold), "C12 emit_constant: older constants are preserved");
  REACH("emit_constant returns");
}
void h_leaf_emit_constant(void) {
  int c = nd_int();
  if (c == 0) const_case(0, 0); else if (c == 1) const_case(2, 3); else const_case(2, 8);
}
#endif

#ifdef LEAF_emit_tag
/* emit_tag(b, t): t must be a keyword; a known tag returns its number, a new one gets nexttag (<= 255, else raise) and is
 * recorded; result always in 1..255 given the invariant of the tags table (holds what emit_tag put) and nexttag >= 1 */
static JanetTable T_TAGS; static int g_found; static uint32_t g_stored; static int g_puts; static Janet g_put_key, g_put_val; static int g_gets;
Janet h_tget(JanetTable *t, Janet key) {
  __CPROVER_assert(t == &T_TAGS, "C12 emit_tag: looks the keyword up in the builder's tag table");
  g_gets++;
  if (g_found) return janet_wrap_number((double) g_stored);
  return janet_wrap_nil();
}
void h_tput(JanetTable *t, Janet key, Janet value) {
  __CPROVER_assert(t == &T_TAGS, "C12 emit_tag: records the tag in the builder's tag table");
  g_put_key = key; g_put_val = value; g_puts++;
}
void h_leaf_emit_tag(void) {
  Builder B; mk_builder(&B, 0, 0); B.tags = &T_TAGS;
  __CPROVER_assume(B.nexttag >= 1);                                   /* compile_peg: nexttag starts at 1 */
  g_found = nd_int() ? 1 : 0; g_stored = nd_u32(); __CPROVER_assume(g_stored >= 1 && g_stored <= 255);   /* table invariant */
  g_puts = 0; g_gets = 0;
  uint32_t next0 = B.nexttag;
  Janet t; t.type = nd_int(); t.as.u64 = nd_u64();
  uint32_t tag = emit_tag(&B, t);
  __CPROVER_assert(t.type == JANET_KEYWORD, "C12 emit_tag: a tag that is not a keyword raises");
  __CPROVER_assert(tag >= 1 && tag <= 255, "C12 emit_tag: tags fit the one-byte tag stack of the matcher and 0 stays reserved for 'untagged'");
  if (g_found) {
    __CPROVER_assert(tag == g_stored && g_puts == 0 && B.nexttag == next0, "C12 emit_tag: a known keyword keeps its tag number");
    REACH("emit_tag returns (known tag)");
  } else {
    __CPROVER_assert(tag == next0 && B.nexttag == next0 + 1, "C12 emit_tag: a new keyword gets the next free number");
    __CPROVER_assert(g_puts == 1 && JEQ(g_put_key, t) && g_put_val.type == JANET_NUMBER && g_put_val.as.number == (double) tag, "C12 emit_tag: the new tag is recorded under its keyword");
    REACH("emit_tag returns (new tag)");
  }
}
#endif

#ifdef LEAF_getint
/* peg_getinteger / peg_getnat: return i only if the pattern value is the number i exactly (and i >= 0 for getnat) */
void h_getint(void) {
  Builder B; mk_builder(&B, 0, 0);
  Janet x; x.type = nd_int(); x.as.number = nd_double();
#ifdef GETNAT
  int32_t i = peg_getnat(&B, x);
  __CPROVER_assert(i >= 0, "C12 peg_getnat: a negative number raises instead of being returned");
#else
  int32_t i = peg_getinteger(&B, x);
#endif
  __CPROVER_assert(x.type == JANET_NUMBER, "C12 peg_getinteger: a non-number raises");
  __CPROVER_assert(x.as.number == (double) i, "C12 peg_getinteger: the result is the pattern's number exactly (fractions, NaN, out-of-int32-range values raise)");
  if (i == 0) REACH("peg_getinteger returns 0");
  if (i == 2147483647) REACH("peg_getinteger returns INT32_MAX");
#ifndef GETNAT
  if (i == (-2147483647 - 1)) REACH("peg_getinteger returns INT32_MIN");
#endif
}
#endif

#if defined(LEAF_arity)
/* peg_arity / peg_fixarity return only when the argument count is in range */
void h_arity_real(void) {
  Builder B; mk_builder(&B, 0, 0);
  int32_t argc = nd_i32(), mn = nd_i32(), mx = nd_i32();
  if (nd_int()) {
    peg_arity(&B, argc, mn, mx);
    __CPROVER_assert((mn < 0 || argc >= mn) && (mx < 0 || argc <= mx), "C12 peg_arity: returns only for min <= argc <= max (negative bound = unbounded)");
    REACH("peg_arity returns");
  } else {
    peg_fixarity(&B, argc, mn);
    __CPROVER_assert(argc == mn, "C12 peg_fixarity: returns only for argc == arity");
    REACH("peg_fixarity returns");
  }
}
#endif

/* ---- string objects for the set / range units ---- */
#if defined(LEAF_getrange) || defined(SHAPE_range) || defined(SHAPE_set)
#define SMAX 3
#define RSPAN 4
static const uint8_t *mk_string(int32_t *lenp) {
  JanetStringHead *h = malloc(sizeof(JanetStringHead) + SMAX + 1); __CPROVER_assume(h != NULL);
  int32_t len = nd_i32(); __CPROVER_assume(len >= 0 && len <= SMAX);
  h->length = len; *lenp = len;
  return h->data;
}
#endif

#ifdef LEAF_getrange
void h_getrange(void) {
  Builder B; mk_builder(&B, 0, 0);
  int32_t len; const uint8_t *s = mk_string(&len);
  Janet x; x.type = nd_int(); x.as.pointer = (void *) s;
  if (nd_int()) {
    const uint8_t *r = peg_getrange(&B, x);
    __CPROVER_assert(x.type == JANET_STRING && r == s, "C12 peg_getrange: only strings are accepted");
    __CPROVER_assert(len == 2, "C12 peg_getrange: the range string has exactly two bytes, else raise (both are read)");
    __CPROVER_assert(r[0] <= r[1], "C12 peg_getrange: an empty range (hi < lo) raises");
    REACH("peg_getrange returns");
  } else {
    const uint8_t *r = peg_getset(&B, x);
    __CPROVER_assert(x.type == JANET_STRING && r == s, "C12 peg_getset: only strings are accepted");
    REACH("peg_getset returns");
  }
}
#endif

#if defined(SHAPE_range) || defined(SHAPE_set)
/* (range "az" ...) / (set "abc"): [RULE_RANGE, lo | hi << 16] resp. [RULE_SET, 8 bitmap words]: bit c set iff c is a member */
void h_charset(void) {
  Builder B; Janet argv[2]; int32_t len[2]; const uint8_t *s[2];
  int32_t argc = nd_i32(); __CPROVER_assume(argc >= 0 && argc <= 2);
  mk_builder(&B, nd_int() ? 0 : N0MAX, BCAP);
  for (int i = 0; i < 2; i++) { s[i] = mk_string(&len[i]); argv[i].type = nd_int(); argv[i].as.pointer = (void *) s[i]; }
#ifdef SHAPE_range
  __CPROVER_assume(s[0][1] < s[0][0] || s[0][1] - s[0][0] < RSPAN); __CPROVER_assume(s[1][1] < s[1][0] || s[1][1] - s[1][0] < RSPAN);   /* bound: span of a range */
#endif
  SPEC_FN(&B, argc, argv);
  const uint32_t *bc = B.bytecode; uint32_t n0 = g_n0;
  uint8_t c = nd_u8();
#ifdef SHAPE_set
  post_rule(&B, 9);
  OKW(argc == 1 && argv[0].type == JANET_STRING, "exactly one string argument, else raise");
  OKW(W(0) == RULE_SET, "opcode");
  int member = 0;
  for (int k = 0; k < SMAX; k++) if (k < len[0] && s[0][k] == c) member = 1;
  OKW((((W(1 + (c >> 5))) >> (c & 0x1F)) & 1u) == (uint32_t) member, "bitmap bit c is set iff byte c occurs in the set string (the matcher tests word c>>5, bit c&31)");
  REACH("spec_set returns");
#else
  OKW(argc >= 1, "at least one range, else raise");
  OKW(argv[0].type == JANET_STRING && len[0] == 2 && s[0][0] <= s[0][1], "every range is a two-byte string lo <= hi, else raise");
  if (argc == 1) {
    post_rule(&B, 2);
    OKW(W(0) == RULE_RANGE, "opcode");
    OKW(W(1) == ((uint32_t) s[0][0] | ((uint32_t) s[0][1] << 16)), "range word = lo | hi << 16");
    REACH("spec_range returns (one range)");
  } else {
    post_rule(&B, 9);
    OKW(argv[1].type == JANET_STRING && len[1] == 2 && s[1][0] <= s[1][1], "every range is a two-byte string lo <= hi, else raise");
    OKW(W(0) == RULE_SET, "opcode");
    int member = (s[0][0] <= c && c <= s[0][1]) || (s[1][0] <= c && c <= s[1][1]);
    OKW((((W(1 + (c >> 5))) >> (c & 0x1F)) & 1u) == (uint32_t) member, "bitmap bit c is set iff c lies in one of the ranges");
    REACH("spec_range returns (two ranges compiled as a set)");
  }
#endif
  (void) bc; (void) n0;
}
#endif

#ifdef LEAF_make_peg
/* make_peg(b): one abstract block holding the header, the bytecode words and the constants: both arrays lie inside the
 * block, aligned, disjoint; lengths copied from the vectors; exactly count elements of each are copied */
static char *g_mem; static size_t g_total; static int g_copies;
static const void *g_src[2]; static void *g_dst[2]; static size_t g_cn[2];
void *h_abstract(const JanetAbstractType *at, size_t size) {
  __CPROVER_assert(at == &janet_peg_type, "C12 make_peg: allocates a core/peg abstract");
  g_total = size; g_mem = malloc(size); __CPROVER_assume(g_mem != NULL); return g_mem;
}
void h_safe_memcpy(void *d, const void *s, size_t n) {
  __CPROVER_assert(g_copies < 2, "C12 make_peg: two copies");
  g_dst[g_copies] = d; g_src[g_copies] = s; g_cn[g_copies] = n; g_copies++;
  __CPROVER_assert(n == 0 || (__CPROVER_same_object(d, g_mem) && (char *) d >= g_mem + sizeof(JanetPeg) && (char *) d + n <= g_mem + g_total), "C12 make_peg: every copy stays inside the block, behind the header");
}
void h_make_peg(void) {
  Builder B; mk_builder(&B, 0, 0);
  int32_t nb = nd_i32(), nc = nd_i32(); __CPROVER_assume(nb >= 0 && nc >= 0);
  /* only the count words of the vectors are read by make_peg itself; the element copies are handed to safe_memcpy */
  int32_t *hb = malloc(2 * sizeof(int32_t)), *hc = malloc(2 * sizeof(int32_t)); __CPROVER_assume(hb && hc);
  hb[0] = nb; hb[1] = nb; hc[0] = nc; hc[1] = nc;
  B.bytecode = nd_int() ? NULL : (uint32_t *)(hb + 2); B.constants = nd_int() ? NULL : (Janet *)(hc + 2);
  if (!B.bytecode) nb = 0; if (!B.constants) nc = 0;
  g_copies = 0;
  JanetPeg *peg = make_peg(&B);
  __CPROVER_assert((char *) peg == g_mem, "C12 make_peg: the peg is the allocated block");
  __CPROVER_assert(g_total >= sizeof(JanetPeg) + (size_t) nb * 4 + (size_t) nc * sizeof(Janet), "C12 make_peg: block large enough for header, words and constants");
  __CPROVER_assert(peg->bytecode_len == (size_t) nb && peg->num_constants == (uint32_t) nc, "C12 make_peg: bytecode_len / num_constants are the vector counts (what wf_peg is stated against)");
  __CPROVER_assert((char *) peg->bytecode >= g_mem + sizeof(JanetPeg) && (char *)(peg->bytecode) + (size_t) nb * 4 <= (char *) peg->constants, "C12 make_peg: bytecode lies behind the header and ends before the constants");
  __CPROVER_assert((char *) peg->constants + (size_t) nc * sizeof(Janet) <= g_mem + g_total, "C12 make_peg: constants end inside the block");
  __CPROVER_assert(((size_t)((char *) peg->bytecode - g_mem)) % sizeof(uint32_t) == 0 && ((size_t)((char *) peg->constants - g_mem)) % sizeof(Janet) == 0, "C12 make_peg: both arrays are aligned for their element type");
  __CPROVER_assert(g_copies == 2 && g_dst[0] == (void *) peg->bytecode && g_src[0] == (const void *) B.bytecode && g_cn[0] == (size_t) nb * 4, "C12 make_peg: exactly count words are copied from the bytecode vector");
  __CPROVER_assert(g_dst[1] == (void *) peg->constants && g_src[1] == (const void *) B.constants && g_cn[1] == (size_t) nc * sizeof(Janet), "C12 make_peg: exactly count constants are copied from the constant vector");
  __CPROVER_assert(peg->has_backref == B.has_backref, "C12 make_peg: has_backref handed on to the matcher");
  REACH("make_peg returns");
}
#endif
