/* C09 (round trip preserves the value) for channels: janet_chanat_marshal (ev.c) writes the queued items in FIFO order -
 * the k-th item written is the k-th item a take would return, i.e. ring slot (head + k) mod capacity - and announces
 * exactly their number, so that janet_chanat_unmarshal (which pushes the items in the order read) rebuilds the same
 * queue. The item writer janet_marshal_janet is replaced by a recording stub. Bounded: ring of at most CM_CAP slots. */
#include "prelude.h"
#ifndef CM_CAP
#define CM_CAP 5
#endif
static JanetChannel cm_ch;
static Janet cm_ring[CM_CAP];
static int cm_items, cm_ints, cm_bytes;
static int32_t cm_int[2];
static int cm_k;            /* ghost: which emitted item is compared */
static Janet cm_kth;
static int cm_order_ok = 1;
static int cm_same(Janet a, Janet b) { return a.type == b.type && a.as.u64 == b.as.u64; }
void cm_marshal_janet_stub(JanetMarshalContext *ctx, Janet x) {
    __CPROVER_assert(cm_ints == 2, "chan.marshal: the items follow the limit and the count");
    if (cm_items == cm_k) cm_kth = x;
    cm_items++;
}
void cm_marshal_int_stub(JanetMarshalContext *ctx, int32_t v) { if (cm_ints < 2) cm_int[cm_ints] = v; cm_ints++; }
void cm_marshal_byte_stub(JanetMarshalContext *ctx, uint8_t v) { cm_bytes++; }
void cm_marshal_abstract_stub(JanetMarshalContext *ctx, void *p) { __CPROVER_assert(p == (void *)&cm_ch, "chan.marshal: registers the channel itself for back references"); }
void h_chan_marshal(void) {
    int32_t cap = nd_i32();
    __CPROVER_assume(cap >= 1 && cap <= CM_CAP);
    cm_ch.items.capacity = cap; cm_ch.items.data = cm_ring;
    cm_ch.items.head = nd_i32(); cm_ch.items.tail = nd_i32();
    /* ring invariant of JanetQueue (units q.push / q.pop) */
    __CPROVER_assume(cm_ch.items.head >= 0 && cm_ch.items.head < cap && cm_ch.items.tail >= 0 && cm_ch.items.tail < cap);
    cm_ch.limit = nd_i32(); cm_ch.closed = nd_int() & 1; cm_ch.is_threaded = nd_int() & 1;
    for (int i = 0; i < CM_CAP; i++) { cm_ring[i].type = (JanetType)(nd_uint() % 16); cm_ring[i].as.u64 = nd_u64(); }
    int32_t count = cm_ch.items.head <= cm_ch.items.tail ? cm_ch.items.tail - cm_ch.items.head : cap - cm_ch.items.head + cm_ch.items.tail;
    cm_k = nd_int();
    __CPROVER_assume(cm_k >= 0 && cm_k < CM_CAP);
    cm_items = cm_ints = cm_bytes = 0;
    JanetMarshalContext ctx;
    janet_chanat_marshal(&cm_ch, &ctx);
    __CPROVER_assert(cm_ints == 2 && cm_int[0] == cm_ch.limit, "chan.marshal: the limit is written");
    __CPROVER_assert(cm_int[1] == count && cm_items == count, "chan.marshal: the announced count is the number of queued items and exactly that many items follow");
    if (cm_k < count) {
        __CPROVER_assert(cm_same(cm_kth, cm_ring[(cm_ch.items.head + cm_k) % cap]), "chan.marshal: the k-th item written is the k-th item in FIFO order (ring slot (head + k) mod capacity)");
        if (cm_ch.items.head > cm_ch.items.tail) REACH("chan.marshal: wrapped ring");
    }
    REACH("chan.marshal returns");
}
