/* C07: the generation protocol of the scheduler (ev.c).
 *  - janet_schedule_general bumps the fiber's generation by exactly one and enqueues ONE task expecting the new generation
 *    (so every earlier task / timeout / channel-waiter record of that fiber becomes stale), and does nothing for a cancelled fiber;
 *  - janet_loop1 resumes a fiber only for a task whose expected generation is current, fires a timeout only if its
 *    recorded generation is current and its time has come, and a deadline cancels its task only while the guarded fiber
 *    can still be resumed;
 *  - janet_addtimeout / janet_addtimeout_nil record the current generation of the current root fiber. */
#include "prelude.h"
JanetFiber g_f[3];
JanetTask g_task; int g_pushes; int g_push_head;
int q_push_rec(JanetQueue *q, void *item, size_t itemsize) { __CPROVER_assert(q == &janet_vm.spawn && itemsize == sizeof(JanetTask), "task goes to the run queue"); g_task = *(JanetTask *)item; g_pushes++; return 0; }
int q_push_head_rec(JanetQueue *q, void *item, size_t itemsize) { g_push_head = 1; return q_push_rec(q, item, itemsize); }
void table_put_stub(JanetTable *t, Janet k, Janet v) { }
void h_schedule_general(void) {
  JanetFiber *f = &g_f[0]; f->sched_id = nd_u32(); f->gc.flags = nd_i32();
  uint32_t id0 = f->sched_id; int32_t fl0 = f->gc.flags; g_pushes = 0;
  Janet v; v.u64 = nd_u64(); JanetSignal sig = (JanetSignal)(nd_uint() % 14); int soon = nd_int() & 1;
  janet_schedule_general(f, v, sig, soon);
  if (fl0 & JANET_FIBER_EV_FLAG_CANCELED) {
    __CPROVER_assert(g_pushes == 0 && f->sched_id == id0 && f->gc.flags == fl0, "C07 schedule: a cancelled fiber is not scheduled again and keeps its generation");
  } else {
    __CPROVER_assert(f->sched_id == id0 + 1, "C07 schedule: the generation is bumped by exactly one");
    __CPROVER_assert(g_pushes == 1 && g_task.fiber == f && g_task.expected_sched_id == f->sched_id && g_task.value.u64 == v.u64 && g_task.sig == sig, "C07 schedule: exactly one task is queued, carrying the value, the signal and the NEW generation");
    __CPROVER_assert((f->gc.flags & JANET_FIBER_EV_FLAG_CANCELED) ? sig == JANET_SIGNAL_ERROR : sig != JANET_SIGNAL_ERROR, "C07 schedule: only a cancellation marks the fiber cancelled");
    REACH("schedule_general queues a task");
  }
}
/* ---- janet_loop1 ---- */
JanetTimestamp g_now; JanetTimeout g_to; int g_have_to; int g_timer_budget; int g_task_budget; int g_can_resume[3];
JanetTask g_cur; int g_have_cur;
JanetTimestamp ts_now_stub(void) { return g_now; }
int peek_timeout_stub(JanetTimeout *out) {
  if (g_timer_budget <= 0 || !(nd_int() & 1)) return 0;
  JanetTimeout t; t.when = nd_i64(); t.fiber = &g_f[nd_uint() % 3]; t.curr_fiber = (nd_int() & 1) ? &g_f[nd_uint() % 3] : 0; t.sched_id = nd_u32(); t.is_error = nd_int() & 1; t.has_worker = 0;
  g_to = t; g_have_to = 1; *out = t; return 1;
}
void pop_timeout_stub(size_t index) { g_timer_budget--; }
int can_resume_stub(JanetFiber *f) { return g_can_resume[f - g_f]; }
static void timer_fire_contract(JanetFiber *fiber, const char *what) {
  __CPROVER_assert(g_have_to && fiber == g_to.fiber, "C07 timers: only the fiber named by the expired entry is resumed");
  __CPROVER_assert(g_to.when <= g_now, "C07 timers: an entry fires only when its time has come (ev/sleep never returns early)");
  if (g_to.curr_fiber != 0) __CPROVER_assert(g_can_resume[g_to.curr_fiber - g_f], "C07 deadline: the task is cancelled only while the guarded fiber can still be resumed");
  else __CPROVER_assert(g_to.sched_id == fiber->sched_id, "C07 timeout: fires only if the wait it was created for is still current (generation matches)");
}
void cancel_stub(JanetFiber *fiber, Janet value) { timer_fire_contract(fiber, "cancel"); REACH("a timer cancels"); }
void schedule_stub2(JanetFiber *fiber, Janet value) { timer_fire_contract(fiber, "schedule"); __CPROVER_assert(g_to.curr_fiber == 0 && !g_to.is_error, "C07 timeout: only a nil-timeout resumes normally"); }
int q_pop_task(JanetQueue *q, void *out, size_t itemsize) {
  JanetTask t; t.fiber = &g_f[nd_uint() % 3]; t.value.u64 = nd_u64(); t.sig = (JanetSignal)(nd_uint() % 14); t.expected_sched_id = nd_u32();
  *(JanetTask *)out = t; g_cur = t; g_have_cur = 1; g_task_budget--;
  if (g_task_budget <= 0) janet_vm.spawn.head = janet_vm.spawn.tail;
  return 0;
}
JanetSignal continue_stub(JanetFiber *fiber, Janet in, Janet *out, JanetSignal sig) {
  __CPROVER_assert(g_have_cur && fiber == g_cur.fiber && in.u64 == g_cur.value.u64 && sig == g_cur.sig, "C07 run queue: the fiber is resumed with the task's own value and signal");
  __CPROVER_assert(g_cur.expected_sched_id == fiber->sched_id, "C07 run queue: a stale task (fiber rescheduled since) is never run");
  REACH("a task is run");
  return (JanetSignal)(nd_uint() % 14);
}
/* C20: before the loop goes to sleep it drops every timer that can no longer fire - a deadline whose guarded fiber has finished,
 * a timeout whose wait is over - so it never waits for one (a finished program returns at once instead of sleeping out a stale
 * deadline). janet_loop1_impl(has_timeout, when) is the sleep. */
void loop1_impl_stub(int has_timeout, JanetTimestamp timeout) {
  if (has_timeout) {
    __CPROVER_assert(g_have_to && timeout == g_to.when, "C20 loop wait: the loop sleeps until the next pending timer");
    __CPROVER_assert(g_to.curr_fiber != 0 ? g_can_resume[g_to.curr_fiber - g_f] : g_to.fiber->sched_id == g_to.sched_id,
                     "C20 loop wait: the timer waited for can still fire (stale deadlines and timeouts are dropped first, not slept out)");
    REACH("the loop sleeps until a live timer");
  } else REACH("the loop sleeps without a timer");
}
void h_loop1(void) {
  for (int i = 0; i < 3; i++) { g_f[i].sched_id = nd_u32(); g_f[i].gc.flags = nd_i32(); g_f[i].supervisor_channel = 0; g_can_resume[i] = nd_int() & 1; }
  g_now = nd_i64(); g_timer_budget = 2; g_task_budget = 2; g_have_to = 0; g_have_cur = 0;
  janet_vm.spawn.head = 0; janet_vm.spawn.tail = nd_int() & 1; janet_vm.auto_suspend = 0; janet_vm.tq_count = 0; janet_vm.listener_count = 0;
#ifdef LOOP1_WAIT
  janet_vm.tq_count = nd_size(); janet_vm.listener_count = nd_int() & 1;
#endif
  janet_loop1();
}
/* ---- timeouts record the current generation ---- */
JanetTimeout g_added; int g_adds;
void add_timeout_rec(JanetTimeout to) { g_added = to; g_adds++; }
void h_addtimeout(void) {
  janet_vm.root_fiber = &g_f[1]; g_f[1].sched_id = nd_u32(); g_adds = 0; int which = nd_int() & 1; double sec = nd_double();
  if (which) janet_addtimeout(sec); else janet_addtimeout_nil(sec);
  __CPROVER_assert(g_adds == 1 && g_added.fiber == &g_f[1] && g_added.curr_fiber == 0 && g_added.sched_id == g_f[1].sched_id, "C07 timeout creation: records the current root fiber and its current generation");
  __CPROVER_assert(g_added.is_error == which, "C07 timeout creation: error vs nil flavour");
  REACH("addtimeout returns");
}
