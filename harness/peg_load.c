/* C10 / C09 / C12: the LOADER peg_unmarshal (peg.c) establishes wf_peg (harness/peg_wf.h) for every program it accepts -
 * the predicate the matcher units peg.rule.* assume. The whole verifier loop at once is out of reach (unit
 * peg.unmarshal.wf, disabled: out of memory), so the loop is split PER OPCODE CASE:
 *
 *   the REAL peg_unmarshal runs on an image whose bytecode is
 *        [RULE_NCHAR n]*   (P/2 pairs, P in {0, 2})        instruction starts 0, 2, ..
 *        [LOAD_OP operands...]                              the ONE instruction under test at word P, operands SYMBOLIC
 *        [RULE_NCHAR n]*   padding up to blen
 *   with every (P, blen, length operand) combination enumerated as CONSTANTS (symex then follows exactly one switch case
 *   per loop iteration) - including images that END INSIDE the instruction (blen < P + size).
 *   Proved: "accepted => the wf_peg clause of that opcode holds at P" (peg_wf_instr, the text the matcher assumes),
 *   header fields, has_backref, array pointers inside the block.
 *
 *   Two block shapes: peg.load.op.* use a typed block with the pad word and room for 2 constants (0..2 constants in the
 *   image: the constant-index clauses need them); peg.load.exact.* use images WITHOUT constants in a packed block that ends
 *   with the last bytecode word, so that ANY read behind the bytecode leaves the object - "only words inside the bytecode
 *   are read while checking" (the verifier used to read operand words first: /repo 27b2ab1).
 */
#ifdef VC_OWN_PANIC
static int g_flags_live;                     /* op_flags allocated and not yet freed */
#define PANIC_BODY { __CPROVER_assert(!g_flags_live, "C10 peg loader: the scratch flag array is freed before the loader raises (no leak per rejected image)"); __CPROVER_assume(0); }
void janet_panic(const char *m) PANIC_BODY
void janet_panicf(const char *m, ...) PANIC_BODY
void janet_panicv(Janet m) PANIC_BODY
void janet_panics(JanetString m) PANIC_BODY
void janet_panic_type(Janet x, int32_t n, int expected) PANIC_BODY
void janet_panic_abstract(Janet x, int32_t n, const JanetAbstractType *at) PANIC_BODY
void janet_signalv(JanetSignal s, Janet m) PANIC_BODY
#endif
#include "prelude.h"
#include <stdlib.h>

#ifndef BL
#define BL 16
#endif
static uint32_t g_blen;
#define PEG_BLEN g_blen
#include "peg_wf.h"

static uint32_t IMG[BL]; static uint32_t g_nconst; static int g_ints, g_janets, g_order_ok; static size_t g_total; static char *g_mem; static size_t g_alloc;
static size_t g_ensure; static int g_ensured;
size_t h_um_size(JanetMarshalContext *ctx) { return (size_t) g_blen; }
int32_t h_um_int(JanetMarshalContext *ctx) {
  int k = g_ints++;
  if (k == 0) return (int32_t) g_nconst;
  __CPROVER_assert((uint32_t)(k - 1) < g_blen, "C10 peg loader: exactly bytecode_len words are read from the image");
  if (g_janets) g_order_ok = 0;
  return (int32_t) IMG[k - 1];
}
Janet h_um_janet(JanetMarshalContext *ctx) {
  __CPROVER_assert((uint32_t) g_janets < g_nconst, "C10 peg loader: exactly num_constants values are read from the image");
  g_janets++;
  Janet x; x.u64 = nd_u64(); return x;
}
void h_um_ensure(JanetMarshalContext *ctx, size_t size) { g_ensure = size; g_ensured++; }
/* The block is a TYPED object per bytecode length (header + uint32 words): symex then reads the opcode words written by
 * the loader back as constants and follows one switch case per iteration (a byte-array block makes every opcode read
 * symbolic: no result within the time limit). Non-TRUNC: room for the pad word and 2 constants. */
#define PADW(n) ((n) + ((n) & 1))            /* constants start 8-aligned: one pad word behind an odd number of words */
#ifdef LOAD_TRUNC
/* packed: no tail padding behind the last word (a padded struct would hide a one-word overread for odd lengths) */
#define BLK(n) static struct __attribute__((packed)) { JanetPeg hdr; uint32_t words[(n) + ((n) == 0)]; } blk##n;
#define PICK(n) case n: g_mem = (char *) &blk##n; g_alloc = sizeof(JanetPeg) + 4 * (n); for (unsigned k = 0; k < (n); k++) blk##n.words[k] = nd_u32(); break;
#else
/* constants are a member of their own: an 8-byte store into the uint32 array would turn the whole array into a byte
 * array for symex and make every opcode read symbolic again */
#define BLK(n) static struct { JanetPeg hdr; uint32_t words[PADW(n) + (PADW(n) == 0)]; Janet consts[2]; } blk##n;
#define PICK(n) case n: g_mem = (char *) &blk##n; g_alloc = sizeof(JanetPeg) + 4 * PADW(n) + 2 * sizeof(Janet); \
  __CPROVER_assert(PADW(n) == 0 || (char *) blk##n.consts == g_mem + sizeof(JanetPeg) + 4 * PADW(n), "harness: constants member sits where the loader puts the constants"); \
  for (unsigned k = 0; k < PADW(n); k++) blk##n.words[k] = nd_u32(); blk##n.consts[0].u64 = nd_u64(); blk##n.consts[1].u64 = nd_u64(); break;
#endif
BLK(0) BLK(1) BLK(2) BLK(3) BLK(4) BLK(5) BLK(6) BLK(7) BLK(8) BLK(9) BLK(10) BLK(11) BLK(12) BLK(13) BLK(14) BLK(15) BLK(16)
void *h_um_abstract(JanetMarshalContext *ctx, size_t size) {
  g_total = size;
  __CPROVER_assert(size >= sizeof(JanetPeg) + 4 * (size_t) g_blen + sizeof(Janet) * (size_t) g_nconst, "C10 peg loader: block large enough for header, words and constants");
  __CPROVER_assert(sizeof(JanetPeg) % 4 == 0, "harness: words follow the header without padding");
  switch (g_blen) {
    PICK(0) PICK(1) PICK(2) PICK(3) PICK(4) PICK(5) PICK(6) PICK(7) PICK(8) PICK(9) PICK(10) PICK(11) PICK(12) PICK(13) PICK(14) PICK(15) PICK(16)
    default: __CPROVER_assume(0);
  }
#ifndef LOAD_TRUNC
  __CPROVER_assert(size <= g_alloc, "harness: typed block covers the requested size");
#endif
#ifdef LOAD_REJECT_ONLY
  REACH("the image is read up to the allocation of the block (every path of this unit must then be rejected)");
#endif
  return g_mem;
}
#ifdef VC_OWN_PANIC
void *h_calloc(size_t n, size_t sz) {
  __CPROVER_assert(n * sz == (size_t) g_blen, "C10 peg loader: one flag byte per bytecode word");
  uint8_t *p = malloc(BL); __CPROVER_assume(p != NULL);
  for (int k = 0; k < BL; k++) p[k] = 0;
  g_flags_live = 1;
  return p;
}
void h_free(void *p) { __CPROVER_assert(p != NULL, "free.pre"); g_flags_live = 0; }
#endif

/* size in words of an instruction by the bytecode format (peg.c / janet.h); 0 = unknown opcode */
static uint32_t op_size(uint32_t op, uint32_t arg1) {
  switch (op) {
    case RULE_LITERAL: return 2 + ((arg1 + 3) >> 2);
    case RULE_CHOICE: case RULE_SEQUENCE: return 2 + arg1;
    case RULE_SET: return 9;
    case RULE_NCHAR: case RULE_NOTNCHAR: case RULE_RANGE: case RULE_POSITION: case RULE_LINE: case RULE_COLUMN: case RULE_BACKMATCH:
    case RULE_ERROR: case RULE_DROP: case RULE_ONLY_TAGS: case RULE_NOT: case RULE_TO: case RULE_THRU: return 2;
    case RULE_BETWEEN: case RULE_CAPTURE_NUM: case RULE_REPLACE: case RULE_MATCHTIME: case RULE_NTH: return 4;
    default: return 3;
  }
}

#ifdef LOAD_OP
/* one (P, blen, arg1) combination; arg1 is the length operand of LITERAL / CHOICE / SEQUENCE (constant), else symbolic */
static void load_case(uint32_t P, uint32_t blen, int fix_arg1, uint32_t arg1c) {
  JanetMarshalContext ctx;
  g_blen = blen; g_ints = 0; g_janets = 0; g_order_ok = 1; g_ensured = 0;
#ifdef LOAD_TRUNC
  g_nconst = 0;
#else
  g_nconst = nd_u32(); __CPROVER_assume(g_nconst <= 2);
#endif
  uint32_t arg1 = fix_arg1 ? arg1c : nd_u32();
  uint32_t w = op_size(LOAD_OP, arg1);
  for (uint32_t k = 0; k < BL; k++) {
    if (k < P) IMG[k] = (k & 1) ? nd_u32() : RULE_NCHAR;
    else if (k == P) IMG[k] = LOAD_OP;
    else if (k == P + 1) IMG[k] = arg1;
    else if (k - P < w) IMG[k] = nd_u32();
    else IMG[k] = ((k - P - w) & 1) ? nd_u32() : RULE_NCHAR;
  }
  JanetPeg *peg = peg_unmarshal(&ctx);

  /* ---- accepted ---- */
  __CPROVER_assert((char *) peg == g_mem && peg->bytecode_len == blen && peg->num_constants == g_nconst, "C10 peg loader: header fields are the lengths read from the image");
  const uint32_t *bc = peg->bytecode;
  __CPROVER_assert((char *) bc >= g_mem + sizeof(JanetPeg) && (char *)(bc + blen) <= (char *) peg->constants && (char *)(peg->constants + g_nconst) <= g_mem + g_total,
                   "C10 peg loader: bytecode and constants lie inside the block, behind the header, disjoint");
  __CPROVER_assert(bc[P] == LOAD_OP, "C10 peg loader: words are stored in image order");
  uint8_t isstart[BL];
  for (uint32_t k = 0; k < BL; k++) isstart[k] = (k < blen) && ((k < P && !(k & 1)) || k == P || (k >= P + w && !((k - P - w) & 1)));
  __CPROVER_assert(P + w <= blen, "C10 peg loader: an instruction that does not fit into the bytecode is rejected (wf_peg: room)");
  __CPROVER_assert(P + w > blen || !((blen - P - w) & 1), "C10 peg loader: a program that ends inside its last instruction (here a lone RULE_NCHAR word) is rejected - does not fit");
  __CPROVER_assert(peg_wf_instr(bc, isstart, P, g_nconst), "C10 peg loader: accepted => the wf_peg clause of this opcode holds (rule operands are instruction starts inside the bytecode, constant operands below num_constants, ...) - the matcher's precondition");
  __CPROVER_assert((peg->has_backref != 0) == (LOAD_OP == RULE_BACKMATCH || LOAD_OP == RULE_GETTAG), "C10 peg loader: has_backref is set iff the program uses back-references (the matcher records tagged captures only then)");
#ifndef LOAD_REJECT_ONLY
  if (P == 0) REACH("peg_unmarshal accepts (instruction first)");
  if (P == 2 && P + w == blen) REACH("peg_unmarshal accepts (instruction last)");
  if (P + w < blen) REACH("peg_unmarshal accepts (instruction followed by others)");
#endif
}
void h_load_op(void) {
  unsigned sel = nd_uint(), code = 0;
#if defined(LOAD_TAIL)
  /* LITERAL / CHOICE / SEQUENCE as the LAST word: the length operand itself lies behind the bytecode (arbitrary memory).
   * Own unit: the instruction pointer is symbolic afterwards, the unit bounds the verifier loop tightly */
  for (uint32_t P = 0; P <= 2; P += 2) {
    if (sel == code) { load_case(P, P + 1, 0, 0); return; }
    code++;
  }
#elif defined(LOAD_LENS)
  /* LITERAL / CHOICE / SEQUENCE: the length operand takes each of these constants */
  static const uint32_t lens[] = { LOAD_LENS };
  for (unsigned li = 0; li < sizeof(lens) / sizeof(lens[0]); li++) {
    uint32_t w = op_size(LOAD_OP, lens[li]);
    for (uint32_t P = 0; P <= 2; P += 2)
      for (uint32_t blen = P + 2; blen <= BL; blen++) {
        if (w <= BL && blen > P + w + 2) continue;              /* at most one padding pair behind the instruction */
        if (w > BL && blen > P + 4) continue;
        if (sel == code) { load_case(P, blen, 1, lens[li]); return; }
        code++;
      }
  }
#else
  uint32_t w = op_size(LOAD_OP, 0);
  for (uint32_t P = 0; P <= 2; P += 2)
    for (uint32_t blen = P + 1; blen <= P + w + 2; blen++) {
      if (sel == code) { load_case(P, blen, 0, 0); return; }
      code++;
    }
#endif
}
#endif

#ifdef LOAD_FRAME
/* framing: lengths from the image, size computation, order of reads, where the words and constants are stored, scratch
 * flags allocated per word and freed on BOTH exits; program = blen/2 x [RULE_NCHAR n] */
static void frame_case(uint32_t blen, uint32_t nconst) {
  JanetMarshalContext ctx;
  g_blen = blen; g_ints = 0; g_janets = 0; g_order_ok = 1; g_ensured = 0; g_flags_live = 0;
  g_nconst = nconst;
  /* [RULE_NCHAR n] pairs; a program of odd length >= 3 ends with [RULE_LOOK offset target] */
  for (uint32_t k = 0; k < BL; k++) IMG[k] = (k & 1) ? nd_u32() : RULE_NCHAR;
  if ((blen & 1) && blen >= 3) { IMG[blen - 3] = RULE_LOOK; IMG[blen - 2] = nd_u32(); IMG[blen - 1] = nd_u32(); }
  JanetPeg *peg = peg_unmarshal(&ctx);
  __CPROVER_assert(blen != 1, "C10 peg loader: a program that ends inside its last instruction is rejected");
  __CPROVER_assert((char *) peg == g_mem && peg->bytecode_len == blen && peg->num_constants == g_nconst, "C10 peg loader: header fields are the lengths read from the image");
  __CPROVER_assert(g_ints == 1 + (int) blen && g_janets == (int) g_nconst && g_order_ok, "C10 peg loader: reads num_constants, then exactly bytecode_len words, then exactly num_constants values (the order peg_marshal writes them)");
  __CPROVER_assert((blen + g_nconst == 0) ? g_ensured == 0 : (g_ensured == 1 && g_ensure == (size_t) blen + g_nconst - 1), "C10 peg loader: asks the unmarshaller for at least one input byte per word and constant BEFORE allocating");
  __CPROVER_assert((char *) peg->bytecode == g_mem + sizeof(JanetPeg) && ((size_t)((char *) peg->constants - g_mem)) % sizeof(Janet) == 0 &&
                   (char *)(peg->bytecode + blen) <= (char *) peg->constants && (char *)(peg->constants + g_nconst) <= g_mem + g_total,
                   "C10 peg loader: same layout as make_peg: words behind the header, constants aligned behind the words, inside the block");
  uint32_t k = nd_u32();
  if (k < blen) __CPROVER_assert(peg->bytecode[k] == IMG[k], "C10 peg loader: word k of the image is word k of the bytecode");
  __CPROVER_assert(!g_flags_live, "C10 peg loader: the scratch flag array is freed on the accepting exit");
  __CPROVER_assert(peg->has_backref == 0, "C10 peg loader: no back-reference opcode, no has_backref");
  if (blen == 0) REACH("peg_unmarshal accepts (empty program)");
  if (blen == 4 && g_nconst == 2) REACH("peg_unmarshal accepts (two instructions, two constants)");
  if (blen == 5 && g_nconst == 1) REACH("peg_unmarshal accepts (odd number of words: constants start behind a pad word)");
}
void h_load_frame(void) {
  unsigned sel = nd_uint();
  for (uint32_t blen = 0; blen <= 5; blen++) for (uint32_t nc = 0; nc <= 2; nc++) if (sel == blen * 3 + nc) { frame_case(blen, nc); return; }
}
/* untrusted lengths: every 64-bit bytecode length and 32-bit constant count: rejected or sized without wrap-around */
static uint64_t g_blen64;
size_t h_um_size64(JanetMarshalContext *ctx) { return (size_t) g_blen64; }
int32_t h_um_int64(JanetMarshalContext *ctx) { return (int32_t) g_nconst; }
void h_um_ensure64(JanetMarshalContext *ctx, size_t size) {
  __CPROVER_assert((unsigned __int128) size + 1 == (unsigned __int128) g_blen64 + g_nconst, "C10 peg loader: the input must hold one byte per word and constant");
  g_ensured++;
}
void *h_um_abstract64(JanetMarshalContext *ctx, size_t size) {
  unsigned __int128 need = (unsigned __int128) sizeof(JanetPeg) + (unsigned __int128) g_blen64 * 4 + (unsigned __int128) g_nconst * sizeof(Janet);
  __CPROVER_assert((unsigned __int128) size >= need, "C10 peg loader: allocation size computed without wrap-around for every length pair");
  __CPROVER_assert(g_blen64 <= 0x7fffffffu && g_nconst <= 0x7fffffffu, "C10 peg loader: lengths beyond int32 are rejected before anything is allocated (blen is truncated to 32 bits by the verifier loop)");
  __CPROVER_assert(g_ensured == (g_blen64 + g_nconst > 0), "C10 peg loader: input length checked before allocating");
  REACH("allocation requested");
  __CPROVER_assume(0);
  return 0;
}
void h_load_sizes(void) { JanetMarshalContext ctx; g_blen64 = nd_u64(); g_nconst = nd_u32(); g_ensured = 0; peg_unmarshal(&ctx); }
#endif
#if defined(LOAD_DEBUG) && defined(LOAD_OP)
#ifndef LOAD_DEBUG_ARG
#define LOAD_DEBUG_ARG 0
#endif
void h_one(void) { load_case(LOAD_DEBUG_P, LOAD_DEBUG_BLEN, LOAD_DEBUG_ARG != 0, LOAD_DEBUG_ARG); }
#endif
