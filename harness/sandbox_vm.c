/* C18: the flag word is monotone and the assertion helper refuses every disabled capability (vm.c) */
#include "prelude.h"
uint32_t g_old;
void janet_sandbox_c(uint32_t flags)
__CPROVER_requires(g_old == janet_vm.sandbox_flags)
__CPROVER_assigns(janet_vm.sandbox_flags)
/* returns normally only if the SANDBOX capability itself was still enabled; never clears a bit; sets every requested bit */
__CPROVER_ensures((g_old & JANET_SANDBOX_SANDBOX) == 0)
__CPROVER_ensures((janet_vm.sandbox_flags & g_old) == g_old)
__CPROVER_ensures(janet_vm.sandbox_flags == (g_old | flags))
;
void janet_sandbox_assert_c(uint32_t forbidden_flags)
__CPROVER_assigns()
/* returns normally only if NONE of the named capabilities is disabled */
__CPROVER_ensures((forbidden_flags & janet_vm.sandbox_flags) == 0)
;
void h_sandbox(void) { janet_sandbox(nd_u32()); REACH("janet_sandbox returns"); }
void h_sandbox_assert(void) { janet_sandbox_assert(nd_u32()); REACH("janet_sandbox_assert returns"); }
