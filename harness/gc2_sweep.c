/* C01 "the collector never frees a value that is still reachable, frees everything else, finalises exactly once":
 * janet_sweep (gc.c) on the MAIN heap list janet_vm.blocks.
 *
 * The heap is a list of at most NB blocks with ARBITRARY flag words (all 2^32 combinations: type bits, REACHABLE, DISABLED,
 * per-type flags).  janet_deinit_block and free are replaced by recording stubs: every call is attributed to a block of the
 * list (a call on anything else fails), the stub of free checks "deinitialised before freed" and then REALLY deallocates the
 * block, so that any later read of it by janet_sweep (e.g. taking ->next after the free) is a pointer-check failure.
 *
 * Obligations (from the property, not from the code):
 *   - a block whose REACHABLE or DISABLED flag is set survives: no deinit, no free, it stays in the list, in the old order,
 *     its flag word is the old one with REACHABLE cleared (type, DISABLED and the per-type flags kept);
 *   - every other block is handed to janet_deinit_block exactly once and then freed exactly once;
 *   - the list ends (NULL) after the last survivor, janet_vm.block_count is the number of survivors;
 *   - the weak list and the threaded-abstract table (both empty here) are left alone. */
#include "prelude.h"
void __CPROVER_deallocate(void *);
#ifndef NB
#define NB 3
#endif
#define SW(c, msg) __CPROVER_assert(c, "C01 sweep: " msg)
JanetGCObject *g_blk[NB]; int g_deinit[NB], g_freed[NB]; int g_foreign;

void sw_deinit_stub(JanetGCObject *m) {
  int hit = 0;
  for (int k = 0; k < NB; k++) if (m == g_blk[k]) {
    hit = 1;
    SW(g_freed[k] == 0, "a block is deinitialised while it is still allocated");
    g_deinit[k]++;
  }
  if (!hit) g_foreign++;
}
void sw_free_stub(void *p) {
  int hit = 0;
  for (int k = 0; k < NB; k++) if (p == (void *) g_blk[k]) {
    hit = 1;
    SW(g_deinit[k] == 1, "a block is deinitialised (finaliser, side allocations) exactly once before it is freed");
    g_freed[k]++;
  }
  if (!hit) g_foreign++;
  else __CPROVER_deallocate(p);
}

void h_sweep_main(void) {
  unsigned n = nd_uint(); __CPROVER_assume(n <= NB);
  int32_t f0[NB];
  for (int k = 0; k < NB; k++) { g_blk[k] = malloc(sizeof(JanetGCObject)); f0[k] = nd_i32(); g_blk[k]->flags = f0[k]; g_deinit[k] = g_freed[k] = 0; }
  for (int k = 0; k < NB; k++) g_blk[k]->data.next = ((unsigned) k + 1 < n) ? g_blk[k + 1] : (JanetGCObject *) 0;
  janet_vm.blocks = n ? g_blk[0] : (JanetGCObject *) 0;
  janet_vm.weak_blocks = (JanetGCObject *) 0;
  janet_vm.threaded_abstracts.data = (JanetKV *) 0; janet_vm.threaded_abstracts.capacity = 0;
  janet_vm.threaded_abstracts.count = 0; janet_vm.threaded_abstracts.deleted = 0;
  janet_vm.block_count = n; g_foreign = 0;

  janet_sweep();

  JanetGCObject *cur = janet_vm.blocks; unsigned surv = 0;
  for (int k = 0; k < NB; k++) if ((unsigned) k < n) {
    if (f0[k] & (JANET_MEM_REACHABLE | JANET_MEM_DISABLED)) {
      SW(g_deinit[k] == 0 && g_freed[k] == 0, "a marked (or collection-disabled) block is neither finalised nor freed");
      SW(cur == g_blk[k], "survivors stay in the block list, in their old order");
      SW(g_blk[k]->flags == (f0[k] & ~JANET_MEM_REACHABLE), "a survivor keeps its flag word with only the reachable bit cleared (white for the next cycle)");
      cur = g_blk[k]->data.next; surv++;
    } else {
      SW(g_deinit[k] == 1, "an unmarked block is handed to janet_deinit_block exactly once");
      SW(g_freed[k] == 1, "an unmarked block is freed exactly once");
    }
  }
  SW(cur == (JanetGCObject *) 0, "the block list ends after the last survivor");
  SW(janet_vm.block_count == surv, "block_count is the number of surviving blocks");
  SW(g_foreign == 0, "nothing outside the heap list is deinitialised or freed");
  SW(janet_vm.weak_blocks == (JanetGCObject *) 0, "the (empty) weak list is left alone");
  if (n == NB && surv == 1 && (f0[1] & JANET_MEM_REACHABLE) && !(f0[1] & JANET_MEM_DISABLED)) REACH("sweep: middle block is the only survivor");
  if (n == NB && surv == 0) REACH("sweep: everything freed");
  if (n == 0) REACH("sweep: empty heap");
  REACH("janet_sweep returns");
}
