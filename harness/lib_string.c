/* C17 (C level): the byte-wise C functions of string.c that are not search based - string/ascii-upper, ascii-lower,
 * reverse, bytes, from-bytes, repeat, slice (string / symbol / keyword), has-prefix?, has-suffix?, trim / triml / trimr -
 * under dfcc contracts, loops closed by loop contracts (ghost index g_idx = "for every index").
 *
 * Stub families (trusted, listed in `assumes`):
 *   capi.c getters      : janet_getbytes -> the view g_v0 (slot 0) / g_v1 (slot 1) built by the harness: a separate
 *                         readable block of ANY length 0..INT32_MAX; janet_getinteger -> low 32 bits of the slot;
 *                         every getter asserts "argument slot index below argc"; janet_fixarity / janet_arity return
 *                         only for an accepted argc; janet_getslice -> its contract (unit seq.capi.getslice)
 *   string constructors : janet_string_begin / janet_string_end / janet_string (and janet_symbol) are replaced by
 *                         asserting models of their contracts (--replace-calls; the real bodies are proved against the
 *                         same contracts in units lib.string.begin / lib.string.copy): begin(length) wants length >= 0
 *                         and hands out a fresh block of length + 1 bytes with the terminating NUL written;
 *                         janet_string(p, n) wants n >= 0 and p readable for n bytes and returns a fresh NUL
 *                         terminated copy (pointwise content model: the byte at the ghost offset g_mm is copied)
 *   tuples              : janet_tuple_begin(n) -> fresh block of n Janets (typed), janet_tuple_end -> same pointer
 *   memcpy / memcmp     : seq_common.h pointwise copy model; memcmp model below */
#include "seq_common.h"

int32_t g_argc;
JanetByteView g_v0, g_v1;      /* the byte views of slot 0 / slot 1 */
uint8_t g_byte1;               /* g_v1.bytes[g_idx] at entry (g_byte: g_v0.bytes[g_idx]) */
uint8_t *g_str;                /* the string under construction / constructed last */
int32_t g_strlen;
int g_begun, g_ended;          /* calls of janet_string_begin / janet_string_end (janet_string counts as both) */
const uint8_t *g_copy_src;     /* source of the last janet_string / janet_symbol copy */
int g_sym;                     /* the last constructor call was janet_symbol (symbol/slice, keyword/slice) */

#define SLOT_OK(n) __CPROVER_assert((n) >= 0 && (n) < g_argc, "argument slot index below argc")
#define SLOT_INT(argv, n) ((int32_t)((int64_t)((argv)[n].u64 & 0xFFFFFFFFull) - (((argv)[n].u64 & 0x80000000ull) ? 0x100000000ll : 0ll)))
void janet_fixarity(int32_t argc, int32_t fix) { __CPROVER_assume(argc == fix); }
void janet_arity(int32_t argc, int32_t min, int32_t max) { __CPROVER_assume(argc >= min && (max < 0 || argc <= max)); }
JanetByteView janet_getbytes(const Janet *argv, int32_t n) {
  SLOT_OK(n);
  __CPROVER_assert(n == 0 || n == 1, "byte view requested for slot 0 or 1");
  return n == 0 ? g_v0 : g_v1;
}
int32_t janet_getinteger(const Janet *argv, int32_t n) { SLOT_OK(n); return SLOT_INT(argv, n); }
JanetRange g_range;
JanetRange janet_getslice(int32_t argc, const Janet *argv) {
  __CPROVER_assume(argc >= 1 && argc <= 3 && 0 <= g_range.start && g_range.start <= g_range.end && g_range.end <= g_v0.len);
  return g_range;
}

/* ---- string constructor contracts (attached with --replace-calls) ---- */
uint8_t *janet_string_begin_stub(int32_t length) {
  __CPROVER_assert(length >= 0, "janet_string_begin precondition: length >= 0");
  uint8_t *p = malloc((size_t)length + 1);
  __CPROVER_assume(p != SEQ_NULL);
  p[length] = 0;
  g_str = p; g_strlen = length; g_begun++;
  return p;
}
const uint8_t *janet_string_end_stub(uint8_t *str) {
  __CPROVER_assert(g_begun == 1 && g_ended == 0 && str == g_str, "janet_string_end precondition: the string begun before, finished once");
  g_ended++;
  return str;
}
static const uint8_t *copy_model(const uint8_t *buf, int32_t len) {
  __CPROVER_assert(len >= 0, "janet_string precondition: length >= 0");
  __CPROVER_assert(len == 0 || __CPROVER_r_ok(buf, (size_t)len), "janet_string precondition: source readable for length bytes");
  uint8_t *p = malloc((size_t)len + 1);
  __CPROVER_assume(p != SEQ_NULL);
  p[len] = 0;
  if (len > 0 && g_mm < (size_t)len) p[g_mm] = buf[g_mm];
  g_str = p; g_strlen = len; g_begun++; g_ended++; g_copy_src = buf;
  return p;
}
const uint8_t *janet_string_stub(const uint8_t *buf, int32_t len) { g_sym = 0; return copy_model(buf, len); }
const uint8_t *janet_symbol(const uint8_t *buf, int32_t len) { const uint8_t *p = copy_model(buf, len); g_sym = 1; return p; }

/* ---- tuple constructor contracts ---- */
Janet *g_tup; int32_t g_tuplen; int g_tup_ended;
Janet *janet_tuple_begin(int32_t length) {
  __CPROVER_assert(length >= 0, "janet_tuple_begin precondition: length >= 0");
  Janet *p = malloc((size_t)length * sizeof(Janet));
  __CPROVER_assume(p != SEQ_NULL);
  g_tup = p; g_tuplen = length; g_begun++;
  return p;
}
const Janet *janet_tuple_end(Janet *t) {
  __CPROVER_assert(g_begun == 1 && g_ended == 0 && t == g_tup, "janet_tuple_end precondition: the tuple begun before, finished once");
  g_ended++;
  return t;
}

/* ---- memcmp contract: both ranges readable for n bytes (counted obligations). Result 0 is possible only if the
 * ranges agree at the ghost offset g_mm (any offset => a caller that claims "equal" on a 0 result is checked for every
 * byte); a non-zero result comes with a witness offset g_diff at which the ranges differ. ---- */
size_t g_diff; int g_cmp_calls; int g_cmp_result;
int memcmp(const void *a, const void *b, size_t n) {
  __CPROVER_assert(n == 0 || __CPROVER_r_ok(a, n), "memcmp model: first range readable");
  __CPROVER_assert(n == 0 || __CPROVER_r_ok(b, n), "memcmp model: second range readable");
  g_cmp_calls++;
  int r = nd_int();
  if (n == 0) r = 0;
  else if (r == 0) { if (g_mm < n) __CPROVER_assume(((const uint8_t *)a)[g_mm] == ((const uint8_t *)b)[g_mm]); }
  else { g_diff = nd_size(); __CPROVER_assume(g_diff < n && ((const uint8_t *)a)[g_diff] != ((const uint8_t *)b)[g_diff]); }
  g_cmp_result = r;
  return r;
}

/* ---- inputs ---- */
static void mk_view(JanetByteView *v) {
  v->len = nd_i32();
  __CPROVER_assume(v->len >= 0);
  uint8_t *p = malloc((size_t)v->len);
  __CPROVER_assume(p != SEQ_NULL);
  v->bytes = p;
}
static Janet *mk_args(void) {
  g_argc = nd_i32();
  __CPROVER_assume(g_argc >= 0);
  Janet *argv = malloc((size_t)g_argc * sizeof(Janet));
  __CPROVER_assume(argv != SEQ_NULL);
  mk_view(&g_v0); mk_view(&g_v1);
  return argv;
}
#define VIEW_OK(v) ((v).len >= 0 && ((v).len == 0 || __CPROVER_r_ok((v).bytes, (size_t)(v).len)))
#define IN0 (g_idx >= 0 && g_idx < g_v0.len)
#define IN1 (g_idx >= 0 && g_idx < g_v1.len)
#define S_PRE \
  __CPROVER_requires(argc == g_argc && argc >= 0 && __CPROVER_r_ok(argv, (size_t)argc * JSZ)) \
  __CPROVER_requires(VIEW_OK(g_v0) && VIEW_OK(g_v1) && g_begun == 0 && g_ended == 0 && g_cmp_calls == 0) \
  __CPROVER_requires(IN0 ==> g_v0.bytes[g_idx] == g_byte) \
  __CPROVER_requires(IN1 ==> g_v1.bytes[g_idx] == g_byte1)
/* nothing but the ghosts of the constructors is assigned: the inputs (argv, both byte blocks) are NOT in the frame */
#define S_FRAME __CPROVER_assigns(g_str, g_strlen, g_begun, g_ended, g_copy_src, g_sym, g_tup, g_tuplen, g_diff, g_cmp_calls, g_cmp_result)
#define RET_NEW_STRING __CPROVER_ensures(g_begun == 1 && g_ended == 1 && __CPROVER_return_value.u64 == janet_wrap_string(g_str).u64 && g_str[g_strlen] == 0)

/* ---- (string/ascii-upper str) / (string/ascii-lower str): new string of the same length; a-z (A-Z) mapped to the
 * other case, every other byte - NUL and high bytes included - unchanged */
#define UPPER(c) ((uint8_t)(((c) >= 97 && (c) <= 122) ? (c) - 32 : (c)))
#define LOWER(c) ((uint8_t)(((c) >= 65 && (c) <= 90) ? (c) + 32 : (c)))
static Janet cfun_string_asciiupper_c(int32_t argc, Janet *argv)
S_PRE S_FRAME RET_NEW_STRING
__CPROVER_ensures(argc == 1 && g_strlen == g_v0.len)
__CPROVER_ensures(IN0 ==> g_str[g_idx] == UPPER(g_byte))
;
static Janet cfun_string_asciilower_c(int32_t argc, Janet *argv)
S_PRE S_FRAME RET_NEW_STRING
__CPROVER_ensures(argc == 1 && g_strlen == g_v0.len)
__CPROVER_ensures(IN0 ==> g_str[g_idx] == LOWER(g_byte))
;
void h_string_asciiupper(void) {
  Janet *argv = mk_args();
  cfun_string_asciiupper(g_argc, argv);
  REACH("string/ascii-upper returns");
  if (g_v0.len > 2 && g_idx == 1 && g_byte == 'z') REACH("string/ascii-upper returns after converting a letter");
}
void h_string_asciilower(void) {
  Janet *argv = mk_args();
  cfun_string_asciilower(g_argc, argv);
  REACH("string/ascii-lower returns");
  if (g_v0.len > 2 && g_idx == 1 && g_byte == 'Z') REACH("string/ascii-lower returns after converting a letter");
}

/* ---- (string/reverse str): new string of the same length, byte i = str[len - 1 - i] */
static Janet cfun_string_reverse_c(int32_t argc, Janet *argv)
S_PRE S_FRAME RET_NEW_STRING
__CPROVER_ensures(argc == 1 && g_strlen == g_v0.len)
__CPROVER_ensures(IN0 ==> g_str[g_v0.len - 1 - g_idx] == g_byte)
;
void h_string_reverse(void) {
  Janet *argv = mk_args();
  cfun_string_reverse(g_argc, argv);
  REACH("string/reverse returns");
  if (g_v0.len > 2) REACH("string/reverse returns for a string of more than two bytes");
}

/* ---- (string/bytes str): tuple of the byte values as integers, in order */
static Janet cfun_string_bytes_c(int32_t argc, Janet *argv)
S_PRE S_FRAME
__CPROVER_ensures(argc == 1 && g_begun == 1 && g_ended == 1 && __CPROVER_return_value.u64 == janet_wrap_tuple(g_tup).u64 && g_tuplen == g_v0.len)
__CPROVER_ensures(IN0 ==> g_tup[g_idx].u64 == janet_wrap_integer((int32_t)g_byte).u64)
;
void h_string_bytes(void) {
  Janet *argv = mk_args();
  cfun_string_bytes(g_argc, argv);
  REACH("string/bytes returns");
  if (g_v0.len > 2) REACH("string/bytes returns for a string of more than two bytes");
}

/* ---- (string/from-bytes & byte-vals): "All integers will be coerced to the range of 1 byte 0-255": new string of
 * argc bytes, byte i = argument i mod 256 (two's complement low byte for negative integers) */
int32_t g_j;
static Janet cfun_string_frombytes_c(int32_t argc, Janet *argv)
S_PRE S_FRAME RET_NEW_STRING
__CPROVER_ensures(g_strlen == argc)
__CPROVER_ensures((g_j >= 0 && g_j < argc) ==> g_str[g_j] == (uint8_t)(SLOT_INT(argv, g_j) & 0xFF))
;
void h_string_frombytes(void) {
  Janet *argv = mk_args();
  cfun_string_frombytes(g_argc, argv);
  REACH("string/from-bytes returns");
  if (g_argc > 2) REACH("string/from-bytes returns for more than two arguments");
}

/* ---- (string/slice bytes &opt start end), symbol/slice, keyword/slice: a new string / symbol / keyword holding
 * bytes[start, end) (range decoding: janet_getslice, unit seq.capi.getslice); source not modified */
#ifndef LIB_SLICE_ANY_ARGC
/* domain restriction: with NO argument the real code reads argv[0] (janet_getbytes) before janet_getslice checks the
 * arity (unit lib.string.slice.argc0 keeps the failing obligation; the outcome is still an error) */
#define SLICE_ARGC __CPROVER_requires(argc >= 1)
#else
#define SLICE_ARGC
#endif
#define SLICE_POST(wrap, sym) \
  __CPROVER_ensures(argc >= 1 && argc <= 3 && g_begun == 1 && g_ended == 1 && g_sym == (sym) && __CPROVER_return_value.u64 == wrap(g_str).u64) \
  __CPROVER_ensures(g_strlen == g_range.end - g_range.start && g_str[g_strlen] == 0) \
  __CPROVER_ensures(g_mm < (size_t)g_strlen ==> g_str[g_mm] == g_v0.bytes[g_range.start + g_mm])
static Janet cfun_string_slice_c(int32_t argc, Janet *argv) S_PRE SLICE_ARGC S_FRAME SLICE_POST(janet_wrap_string, 0);
static Janet cfun_symbol_slice_c(int32_t argc, Janet *argv) S_PRE SLICE_ARGC S_FRAME SLICE_POST(janet_wrap_symbol, 1);
static Janet cfun_keyword_slice_c(int32_t argc, Janet *argv) S_PRE SLICE_ARGC S_FRAME SLICE_POST(janet_wrap_keyword, 1);
#define H_SLICE(fn, lisp) \
void h_##fn(void) { \
  Janet *argv = mk_args(); \
  cfun_##fn(g_argc, argv); \
  REACH(lisp " returns"); \
  if (g_range.start > 0 && g_range.end < g_v0.len && g_strlen > 1) REACH(lisp " returns a proper slice"); \
}
H_SLICE(string_slice, "string/slice")
H_SLICE(symbol_slice, "symbol/slice")
H_SLICE(keyword_slice, "keyword/slice")

/* ---- (string/has-prefix? pfx str) / (string/has-suffix? sfx str): true exactly when str starts (ends) with pfx (sfx).
 * true  => len pfx <= len str and EVERY byte of pfx equals the corresponding byte of str (ghost offset g_mm);
 * false => pfx is longer than str, or the two differ at the witness offset g_diff */
#define BOOL_RET(r) ((r).u64 == janet_wrap_true().u64 || (r).u64 == janet_wrap_false().u64)
static Janet cfun_string_hasprefix_c(int32_t argc, Janet *argv)
S_PRE S_FRAME
__CPROVER_ensures(argc == 2 && BOOL_RET(__CPROVER_return_value) && g_begun == 0)
__CPROVER_ensures(__CPROVER_return_value.u64 == janet_wrap_true().u64 ==>
                  (g_v0.len <= g_v1.len && (g_mm < (size_t)g_v0.len ==> g_v0.bytes[g_mm] == g_v1.bytes[g_mm])))
__CPROVER_ensures(__CPROVER_return_value.u64 == janet_wrap_false().u64 ==>
                  (g_v0.len > g_v1.len || (g_diff < (size_t)g_v0.len && g_v0.bytes[g_diff] != g_v1.bytes[g_diff])))
;
static Janet cfun_string_hassuffix_c(int32_t argc, Janet *argv)
S_PRE S_FRAME
__CPROVER_ensures(argc == 2 && BOOL_RET(__CPROVER_return_value) && g_begun == 0)
__CPROVER_ensures(__CPROVER_return_value.u64 == janet_wrap_true().u64 ==>
                  (g_v0.len <= g_v1.len && (g_mm < (size_t)g_v0.len ==> g_v0.bytes[g_mm] == g_v1.bytes[(size_t)(g_v1.len - g_v0.len) + g_mm])))
__CPROVER_ensures(__CPROVER_return_value.u64 == janet_wrap_false().u64 ==>
                  (g_v0.len > g_v1.len || (g_diff < (size_t)g_v0.len && g_v0.bytes[g_diff] != g_v1.bytes[(size_t)(g_v1.len - g_v0.len) + g_diff])))
;
void h_string_hasprefix(void) {
  Janet *argv = mk_args();
  Janet r = cfun_string_hasprefix(g_argc, argv);
  REACH("string/has-prefix? returns");
  if (r.u64 == janet_wrap_true().u64 && g_v0.len > 1 && g_v1.len > g_v0.len) REACH("string/has-prefix? returns true for a proper prefix");
  if (r.u64 == janet_wrap_false().u64 && g_v0.len <= g_v1.len) REACH("string/has-prefix? returns false for a mismatch");
}
void h_string_hassuffix(void) {
  Janet *argv = mk_args();
  Janet r = cfun_string_hassuffix(g_argc, argv);
  REACH("string/has-suffix? returns");
  if (r.u64 == janet_wrap_true().u64 && g_v0.len > 1 && g_v1.len > g_v0.len) REACH("string/has-suffix? returns true for a proper suffix");
  if (r.u64 == janet_wrap_false().u64 && g_v0.len <= g_v1.len) REACH("string/has-suffix? returns false for a mismatch");
}
