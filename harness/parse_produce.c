/* C11: "interleaving status and produce queries ... gives the same results": janet_parser_produce / _produce_wrapped dequeue exactly
 * the first root value: the remaining queue is the old queue shifted by one (ghost index), pending/argcount/states[0].argn drop by
 * one, every other field is outside the frame.  Compiled in the JANET_NO_NANBOX configuration (values are unwrapped). */
#include "prelude.h"

/* ---- janet_parser_produce(_wrapped) ------------------------------------------------------------------------------
 * representation invariant of a live parser (from pushstate/popstate/push_arg): states[0] is the root container whose argn counts
 * the queued root values == pending <= argcount <= argcap; every queued root value is a 1-tuple (popstate wraps it). */
size_t g_k;            /* ghost index into the args queue (unconstrained except for being a valid slot) */
JanetTupleHead *g_head; /* the 1-tuple that wraps the first queued value */
Janet g_old;            /* value of args[g_k] in the pre-state (set by requires) */
Janet g_first;          /* the value at the head of the queue in the pre-state */
#define JV_EQ(a, b) ((a).type == (b).type && (a).as.u64 == (b).as.u64)

#define REQUIRES_WF_QUEUE(parser) \
__CPROVER_requires(__CPROVER_is_fresh(parser, sizeof(*parser))) \
__CPROVER_requires(parser->argcap >= 1 && parser->argcap <= 0x7ffffff && parser->argcount <= parser->argcap) \
__CPROVER_requires(__CPROVER_is_fresh(parser->args, parser->argcap * sizeof(Janet))) \
__CPROVER_requires(parser->statecap >= 1 && parser->statecap <= 0x7ffffff && parser->statecount >= 1 && parser->statecount <= parser->statecap) \
__CPROVER_requires(__CPROVER_is_fresh(parser->states, parser->statecap * sizeof(JanetParseState))) \
__CPROVER_requires(parser->pending <= parser->argcount && parser->states[0].argn >= 0 && (size_t) parser->states[0].argn == parser->pending) \
__CPROVER_requires(g_k < parser->argcap)

#define ENSURES_SHIFT(parser) \
__CPROVER_ensures(__CPROVER_old(parser->pending) == 0 ==> (janet_checktype(__CPROVER_return_value, JANET_NIL) && \
      parser->pending == 0 && parser->argcount == __CPROVER_old(parser->argcount) && parser->states[0].argn == 0 && \
      JV_EQ(parser->args[g_k], g_old)))                                                   /* empty queue: nil, nothing moves */ \
__CPROVER_ensures(__CPROVER_old(parser->pending) != 0 ==> (parser->pending == __CPROVER_old(parser->pending) - 1 && \
      parser->argcount == __CPROVER_old(parser->argcount) - 1 && parser->states[0].argn == __CPROVER_old(parser->states[0].argn) - 1)) \
__CPROVER_ensures((__CPROVER_old(parser->pending) != 0 && g_k >= 1 && g_k < __CPROVER_old(parser->argcount)) ==> \
      JV_EQ(parser->args[g_k - 1], g_old))                                                /* slot k-1 now holds what slot k held */


Janet janet_parser_produce_wrapped_c(JanetParser *parser)
REQUIRES_WF_QUEUE(parser)
__CPROVER_requires(JV_EQ(g_old, parser->args[g_k]))
__CPROVER_requires(JV_EQ(g_first, parser->args[0]))
__CPROVER_assigns(parser->pending, parser->argcount, parser->states[0].argn, __CPROVER_object_whole(parser->args))
ENSURES_SHIFT(parser)
__CPROVER_ensures(__CPROVER_old(parser->pending) != 0 ==> JV_EQ(__CPROVER_return_value, g_first))   /* the dequeued value is the old head */
;

void h_produce_wrapped(void) {
  JanetParser *p;
  janet_parser_produce_wrapped(p);
  REACH("normal return of janet_parser_produce_wrapped");
}

Janet janet_parser_produce_c(JanetParser *parser)
REQUIRES_WF_QUEUE(parser)
__CPROVER_requires(JV_EQ(g_old, parser->args[g_k]))
__CPROVER_requires(__CPROVER_is_fresh(g_head, sizeof(JanetTupleHead) + sizeof(Janet)))
__CPROVER_requires(parser->pending != 0 ==> (parser->args[0].type == JANET_TUPLE && __CPROVER_pointer_equals(parser->args[0].as.pointer, (void *) g_head->data)))
__CPROVER_requires(JV_EQ(g_first, g_head->data[0]))
__CPROVER_assigns(parser->pending, parser->argcount, parser->states[0].argn, __CPROVER_object_whole(parser->args))
ENSURES_SHIFT(parser)
__CPROVER_ensures(__CPROVER_old(parser->pending) != 0 ==> JV_EQ(__CPROVER_return_value, g_first))   /* the element of the wrapping 1-tuple */
;
void h_produce(void) {
  JanetParser *p;
  janet_parser_produce(p);
  REACH("normal return of janet_parser_produce");
}
