/* C11: "interleaving status and produce queries ... gives the same results": the query entry points of parse.c.
 *  - janet_parser_status / janet_parser_has_more write NOTHING (empty assigns clause) and return a function of the parser fields;
 *  - janet_parser_produce / _produce_wrapped dequeue exactly the first root value: the remaining queue is the old queue shifted by
 *    one (ghost index), pending/argcount/states[0].argn drop by one, every other field is outside the frame. */
#include "prelude.h"

#define PARSER_FIELDS_SIZE (4 * sizeof(void *) + 9 * sizeof(size_t) + 2 * sizeof(int))
_Static_assert(sizeof(JanetParser) == PARSER_FIELDS_SIZE, "contract out of date: struct JanetParser changed (field list of the C11 contracts)");

/* ---- janet_parser_status ---------------------------------------------------------------------------------------- */
enum JanetParserStatus janet_parser_status_c(JanetParser *parser)
__CPROVER_requires(__CPROVER_is_fresh(parser, sizeof(*parser)))
__CPROVER_assigns()
__CPROVER_ensures(__CPROVER_return_value ==
    (parser->error ? JANET_PARSE_ERROR : parser->flag ? JANET_PARSE_DEAD : parser->statecount > 1 ? JANET_PARSE_PENDING : JANET_PARSE_ROOT))
;
void h_status(void) {
  JanetParser *p;
  janet_parser_status(p);
  REACH("normal return of janet_parser_status");
}

/* ---- janet_parser_has_more -------------------------------------------------------------------------------------- */
int janet_parser_has_more_c(JanetParser *parser)
__CPROVER_requires(__CPROVER_is_fresh(parser, sizeof(*parser)))
__CPROVER_assigns()
__CPROVER_ensures(__CPROVER_return_value == (parser->pending != 0))
;
void h_has_more(void) {
  JanetParser *p;
  janet_parser_has_more(p);
  REACH("normal return of janet_parser_has_more");
}

