/* C02: while loops ("loops with break", "closures created inside loops", "nested break").
 * Real janetc_while (specials.c), real janetc_scope / janetc_popscope (compile.c), real janetc_emit (emit.c);
 * sub-form compilation (janetc_value) is a contract stub: it emits 0..2 arbitrary instructions - possibly the break
 * placeholder 0x80|JOP_JUMP - and may create a closure in the current scope (sets JANET_SCOPE_CLOSURE on it).
 *
 * Contract
 *  plain loop (no closure created in the loop): code before the loop is untouched; the condition's jump leaves the loop
 *    to the first instruction after it; the loop ends with a jump back to its first instruction; every break placeholder
 *    inside the loop becomes a jump to the first instruction after the loop and nothing else in the body changes; the
 *    loop's scope is popped;
 *  loop whose body creates a closure: everything the first compilation emitted is discarded, the loop is recompiled in a
 *    function scope that is turned into a definition (janetc_pop_funcdef) ending in a self tail call, the enclosing code
 *    gets exactly `closure; call`, and the ENCLOSING scope is marked as creating a closure - so that an enclosing loop is
 *    compiled as a function too and its per-iteration bindings are fresh for every iteration. */
#include "prelude.h"
#include <stdlib.h>

void *wl_srealloc(void *p, size_t n) { void *q = realloc(p, n); __CPROVER_assume(q != (void *)0); return q; }
void wl_sfree(void *p) { }
/* the preallocated vectors never need to grow in this harness: reaching the growth path is a harness error (asserted) */
void *wl_nogrow_stub(void *v, int32_t increment, int32_t itemsize) { __CPROVER_assert(0, "harness: the preallocated instruction vectors suffice"); __CPROVER_assume(0); return v; }

#define WL_PRE 2
#define WL_VCAP 40
#ifndef WL_MAXARG
#define WL_MAXARG 3
#endif
static JanetCompiler wl_c;
static JanetScope wl_outer;
static int wl_value_calls, wl_popdef_calls, wl_closure_in_first;
static int wl_cond_constant;
static uint32_t wl_emitted[16]; static int wl_nemitted;      /* ghost copy of what the value stub emitted in the FIRST compilation */
static int32_t wl_emit_at[16];
static JanetFuncDef wl_def;
static int32_t wl_defindex;
static int wl_scope_at_popdef_is_function;
static int32_t wl_selfcall_ok;

static void wl_emit_rec(uint32_t w) { if (wl_nemitted < 16) { wl_emitted[wl_nemitted] = w; wl_emit_at[wl_nemitted] = janet_v_count(wl_c.buffer); wl_nemitted++; } janetc_emit(&wl_c, w); }

JanetSlot wl_value_stub(JanetFopts opts, Janet x) {
    JanetSlot s; s.constant.type = JANET_NIL; s.constant.as.u64 = 0; s.index = 3; s.envindex = -1; s.flags = 0;
    int first_pass = wl_popdef_calls == 0 && !(wl_c.scope->flags & JANET_SCOPE_FUNCTION);
    int k = nd_int();
    for (int j = 0; j < 2; j++) if (j < k) {
        uint32_t w = nd_int() ? (0x80 | JOP_JUMP) : ((nd_u32() << 8) | JOP_LOAD_NIL);     /* a break placeholder or an ordinary instruction */
        if (first_pass) wl_emit_rec(w); else janetc_emit(&wl_c, w);
    }
    if (wl_value_calls == 0 || (!first_pass && x.as.u64 == 0)) {
        /* the condition form: constant or not, the same way in both compilations */
        if (wl_cond_constant) { s.flags = JANET_SLOT_CONSTANT | (1 << JANET_BOOLEAN); s.constant.type = JANET_BOOLEAN; s.constant.as.u64 = 1; }
    } else if (first_pass && nd_int()) {
        wl_c.scope->flags |= JANET_SCOPE_CLOSURE;     /* a closure is created in the loop body */
        wl_closure_in_first = 1;
    }
    wl_value_calls++;
    return s;
}
/* the (= nil x) / (not= nil x) condition shortcuts: the condition may be of either form (not both) */
static int wl_form_eq, wl_form_neq;
int wl_nil_form_stub(Janet x, Janet *capture, uint32_t fun_tag) { return fun_tag == JANET_FUN_EQ ? wl_form_eq : fun_tag == JANET_FUN_NEQ ? wl_form_neq : 0; }
static int wl_si_calls; static uint8_t wl_si_op[4];
void wl_freeslot_stub(JanetCompiler *c, JanetSlot s) {}
/* contract of janetc_emit_si: emits the instruction (after possibly one move for a far slot) and returns ITS index; the
 * jump field is zero so that the caller can OR the offset in */
int32_t wl_emit_si_stub(JanetCompiler *c, uint8_t op, JanetSlot s, int16_t imm, int wr) {
    if (wl_si_calls < 4) wl_si_op[wl_si_calls] = op;
    wl_si_calls++;
    if (nd_int()) janetc_emit(c, (nd_u32() << 8) | JOP_MOVE_NEAR);
    int32_t label = janet_v_count(c->buffer);
    janetc_emit(c, (uint32_t) op | (3u << 8) | ((uint32_t)(uint16_t) imm << 16));
    return label;
}
void wl_ra_init_stub(JanetcRegisterAllocator *ra) { ra->max = 0; }
void wl_ra_clone_stub(JanetcRegisterAllocator *d, JanetcRegisterAllocator *s) { d->max = s->max; }
void wl_ra_deinit_stub(JanetcRegisterAllocator *ra) {}
int32_t wl_ra_temp_stub(JanetcRegisterAllocator *ra, JanetcRegisterTemp t) { int32_t r = nd_i32(); __CPROVER_assume(r >= 0 && r < 256); return r; }
void wl_ra_freetemp_stub(JanetcRegisterAllocator *ra, int32_t reg, JanetcRegisterTemp t) {}
/* contract of janetc_pop_funcdef as far as this function goes: takes the code of the current FUNCTION scope out of the
 * buffer and pops that scope */
JanetFuncDef *wl_pop_funcdef_stub(JanetCompiler *c) {
    wl_popdef_calls++;
    wl_scope_at_popdef_is_function = (c->scope->flags & JANET_SCOPE_FUNCTION) != 0;
    int32_t n = janet_v_count(c->buffer);
    wl_selfcall_ok = n >= c->scope->bytecode_start + 2 && (c->buffer[n - 2] & 0xFF) == JOP_LOAD_SELF && (c->buffer[n - 1] & 0xFF) == JOP_TAILCALL &&
                     ((c->buffer[n - 2] >> 8) == (c->buffer[n - 1] >> 8));
    if (c->buffer) janet_v__cnt(c->buffer) = c->scope->bytecode_start;
    if (c->mapbuffer) janet_v__cnt(c->mapbuffer) = c->scope->bytecode_start;
    c->scope = c->scope->parent;
    if (c->scope) c->scope->child = (JanetScope *)0;
    return &wl_def;
}
int32_t wl_addfuncdef_stub(JanetCompiler *c, JanetFuncDef *def) { __CPROVER_assert(def == &wl_def, "comp.while: the loop function's definition is registered"); wl_defindex = nd_i32(); __CPROVER_assume(wl_defindex >= 0 && wl_defindex < 0x8000);   /* (defindex << 16 is formally undefined from 0x8000 on; not pursued) */ return wl_defindex; }
void wl_addflags_stub(JanetFuncDef *def) {}
const uint8_t *wl_cstring_stub(const char *s) { return (const uint8_t *) s; }
void wl_cerror_stub(JanetCompiler *c, const char *m) { __CPROVER_assume(0); }

void h_while(void) {
    /* code emitted before the loop, in the enclosing scope */
    /* vectors with room for everything this harness emits: the growth path of janet_v_grow is proved in comp.srcmap.emit
     * (its realloc of a symbolic size is what makes CBMC slow here) */
    static struct { int32_t cap, cnt; uint32_t data[WL_VCAP]; } wl_bufmem;
    static struct { int32_t cap, cnt; JanetSourceMapping data[WL_VCAP]; } wl_mapmem;
    wl_bufmem.cap = WL_VCAP; wl_bufmem.cnt = 0; wl_mapmem.cap = WL_VCAP; wl_mapmem.cnt = 0;
    wl_c.buffer = wl_bufmem.data; wl_c.mapbuffer = wl_mapmem.data;
    uint32_t pre[WL_PRE];
    for (int i = 0; i < WL_PRE; i++) { pre[i] = nd_u32(); janetc_emit(&wl_c, pre[i]); }
    wl_outer.parent = (JanetScope *)0; wl_outer.child = (JanetScope *)0; wl_outer.flags = nd_int() ? JANET_SCOPE_WHILE : JANET_SCOPE_FUNCTION;
    wl_outer.bytecode_start = 0; wl_outer.syms = (SymPair *)0; wl_outer.consts = (Janet *)0; wl_outer.envs = (JanetEnvRef *)0; wl_outer.defs = (JanetFuncDef **)0;
    wl_outer.ra.max = 0;
    wl_c.scope = &wl_outer;
    int32_t argn = nd_i32();
    __CPROVER_assume(argn >= 1 && argn <= WL_MAXARG);
    Janet argv[3];
    for (int i = 0; i < 3; i++) { argv[i].type = JANET_NIL; argv[i].as.u64 = (uint64_t) i; }      /* form identity = index */
    wl_cond_constant = nd_int() & 1;
    wl_value_calls = wl_popdef_calls = wl_closure_in_first = wl_nemitted = wl_si_calls = 0;
    wl_form_eq = nd_int() & 1; wl_form_neq = wl_form_eq ? 0 : (nd_int() & 1);
    JanetFopts opts; opts.compiler = &wl_c; opts.flags = 0; opts.hint.flags = 0; opts.hint.index = 0; opts.hint.envindex = -1; opts.hint.constant.type = JANET_NIL; opts.hint.constant.as.u64 = 0;
    janetc_while(opts, argn, argv);

    int32_t n = janet_v_count(wl_c.buffer);
    __CPROVER_assert(wl_c.scope == &wl_outer && wl_outer.child == (JanetScope *)0, "comp.while: the loop's scope is popped; compilation continues in the enclosing scope");
    __CPROVER_assert(n >= WL_PRE && wl_c.buffer[0] == pre[0] && wl_c.buffer[1] == pre[1], "comp.while: code emitted before the loop is untouched");
    __CPROVER_assert(janet_v_count(wl_c.mapbuffer) == n, "comp.while: the source map stays in step with the code");
    /* a constant condition that is false for the loop's test: (= nil <non-nil constant>) - the loop never executes */
    int never = wl_cond_constant && wl_form_eq;
    if (never) {
        __CPROVER_assert(wl_popdef_calls == 0 && wl_si_calls == 0 && wl_value_calls == 1 && !(wl_outer.flags & JANET_SCOPE_CLOSURE), "comp.while: a loop whose constant condition fails compiles no body and no jumps");
        REACH("while: never executes");
        return;
    }
    if (wl_closure_in_first) {
        __CPROVER_assert(wl_popdef_calls == 1 && wl_scope_at_popdef_is_function, "comp.while: a loop whose body creates a closure is recompiled as a function");
        __CPROVER_assert(wl_selfcall_ok, "comp.while: the loop function iterates by a tail call to itself");
        __CPROVER_assert(n == WL_PRE + 2, "comp.while: the first compilation of the loop is discarded; the enclosing code gets exactly closure + call");
        __CPROVER_assert((wl_c.buffer[WL_PRE] & 0xFF) == JOP_CLOSURE && (wl_c.buffer[WL_PRE] >> 16) == (uint32_t) wl_defindex &&
                         (wl_c.buffer[WL_PRE + 1] & 0xFF) == JOP_CALL && ((wl_c.buffer[WL_PRE + 1] >> 16) & 0xFF) == ((wl_c.buffer[WL_PRE] >> 8) & 0xFF),
                         "comp.while: the loop function is instantiated from its definition and called");
        __CPROVER_assert(wl_outer.flags & JANET_SCOPE_CLOSURE, "comp.while: the enclosing scope is marked as creating a closure (an enclosing loop must become a function too)");
        if (!wl_cond_constant) {
            /* both compilations test the SAME condition: the jump loop leaves when the test fails (first emit), the function
             * version skips its `return nil` when the test holds (second emit) - complementary opcodes of one test */
            uint8_t leave = wl_si_op[0], stay = wl_si_op[1];
            __CPROVER_assert(wl_si_calls == 2 && ((leave == JOP_JUMP_IF_NOT && stay == JOP_JUMP_IF) || (leave == JOP_JUMP_IF_NOT_NIL && stay == JOP_JUMP_IF_NIL) || (leave == JOP_JUMP_IF_NIL && stay == JOP_JUMP_IF_NOT_NIL)),
                             "comp.while: recompiled as a function the loop keeps its condition (same test, nil-ness tests included)");
        }
        REACH("while with closure: compiled as function");
    } else {
        __CPROVER_assert(wl_popdef_calls == 0, "comp.while: a loop without closures stays a jump loop");
        /* the ghost instruction g emitted by the body in the first (only) compilation */
        int g = nd_int();
        __CPROVER_assume(g >= 0 && g < wl_nemitted);
        int32_t at = wl_emit_at[g];
        __CPROVER_assert(at >= WL_PRE && at < n, "comp.while: the body's instructions are kept");
        if (wl_emitted[g] == (0x80 | JOP_JUMP)) {
            __CPROVER_assert(wl_c.buffer[at] == (JOP_JUMP | ((uint32_t)(n - at) << 8)), "comp.while: a break jumps to the first instruction after the loop");
            REACH("while: break patched");
        } else
            __CPROVER_assert(wl_c.buffer[at] == wl_emitted[g], "comp.while: no other instruction of the body is changed");
        if (wl_value_calls > 0 && !(wl_cond_constant == 0 && 0)) {
            __CPROVER_assert((wl_c.buffer[n - 1] & 0xFF) == JOP_JUMP && (int32_t) wl_c.buffer[n - 1] >> 8 == WL_PRE - (n - 1), "comp.while: the loop ends with a jump back to its first instruction");
        }
        if (!wl_cond_constant) {
            /* the conditional exit: the one instruction whose opcode is the exit test written by janetc_emit_si */
            int32_t j = nd_i32();
            __CPROVER_assume(j >= WL_PRE && j < n && (wl_c.buffer[j] & 0xFF) == wl_si_op[0] && ((wl_c.buffer[j] >> 8) & 0xFF) == 3);
            int is_body = 0;
            for (int q = 0; q < 16; q++) if (q < wl_nemitted && wl_emit_at[q] == j) is_body = 1;
            if (!is_body) {
                __CPROVER_assert((int32_t)(wl_c.buffer[j] >> 16) == n - j, "comp.while: when the condition fails the loop is left to the first instruction after it");
                REACH("while: conditional exit patched");
            }
        }
        __CPROVER_assert(!(wl_outer.flags & JANET_SCOPE_CLOSURE), "comp.while: no closure flag appears from nowhere");
        if (!wl_cond_constant)
            __CPROVER_assert(wl_si_op[0] == (wl_form_eq ? JOP_JUMP_IF_NOT_NIL : wl_form_neq ? JOP_JUMP_IF_NIL : JOP_JUMP_IF_NOT), "comp.while: the loop is left when its condition fails: (= nil x) loops while x is nil, (not= nil x) while it is not, otherwise while truthy");
        REACH("while without closure: jump loop");
    }
}
