/* C13: "64-bit integer text round-trips exactly": the printing half - it_s64_tostring / it_u64_tostring (inttypes.c), the
 * tostring slots of core/s64 and core/u64.  The value is handed to snprintf under the 64-bit decimal conversion of ITS OWN
 * signedness (so 2^63 .. 2^64-1 print as positive numbers for u64 and negative numbers keep their sign for s64), into a block
 * large enough for the longest rendering (20 digits + sign + NUL), and exactly that text is appended to the buffer.
 * snprintf itself is libc (trusted): the stub checks the conversion and hands back an arbitrary NUL-terminated text. */
#include "prelude.h"
#include <stdarg.h>
static int nt_signed, nt_calls, nt_pushes; static uint64_t nt_val; static char *nt_block; static JanetBuffer nt_buf;
int nt_snprintf_stub(char *str, size_t n, const char *fmt, ...) {
  va_list ap; va_start(ap, fmt); uint64_t v = va_arg(ap, uint64_t); va_end(ap);
  __CPROVER_assert(fmt[0] == '%' && fmt[1] == 'l' && fmt[3] == 0, "int64.text: one 64-bit decimal conversion and nothing else");
  __CPROVER_assert(fmt[2] == (nt_signed ? 'd' : 'u'), "int64.text: the conversion has the signedness of the type (u64 prints unsigned, s64 signed)");
  __CPROVER_assert(v == nt_val, "int64.text: the boxed value itself is printed");
  __CPROVER_assert(n >= 22 && __CPROVER_w_ok(str, n), "int64.text: the block holds the longest rendering (20 digits, sign, NUL)");
  nt_block = str; nt_calls++;
  int len = nd_int(); __CPROVER_assume(len >= 1 && len <= 21);
  str[len] = 0;
  return len;
}
void nt_push_stub(JanetBuffer *b, const char *s) {
  __CPROVER_assert(b == &nt_buf && s == nt_block && nt_calls == 1, "int64.text: exactly the rendered text is appended to the buffer");
  nt_pushes++;
}
void h_int64_tostring(void) {
  nt_val = nd_u64(); nt_signed = NT_SIGNED; nt_calls = 0; nt_pushes = 0;
  uint64_t box = nt_val;
  /* through the abstract type's tostring slot: what printing a boxed integer dispatches to */
  const JanetAbstractType *at = NT_SIGNED ? &janet_s64_type : &janet_u64_type;
  at->tostring(&box, &nt_buf);
  __CPROVER_assert(nt_calls == 1 && nt_pushes == 1 && box == nt_val, "int64.text: one rendering, appended once, value untouched");
  REACH("int64 tostring returns");
}
