/* C17 (C level), bounded exactness against reference definitions (plain mode, all byte contents):
 *   trim_help_checkset(set, x)  == "x occurs in set"                       (sets of at most LIB_MAXSET bytes)
 *   string/check-set set str    == "every byte of str occurs in set"       (set <= LIB_MAXSET, str <= LIB_MAXSTR bytes)
 * Constant lengths per call (switch over the length, cf. str_kmp.c) so that every block has constant size. */
#include "prelude.h"
#include <stdlib.h>
#ifndef LIB_MAXSET
#define LIB_MAXSET 8
#endif
#ifndef LIB_MAXSTR
#define LIB_MAXSTR 4
#endif
int32_t g_argc;
JanetByteView g_v0, g_v1;
#define SLOT_OK(n) __CPROVER_assert((n) >= 0 && (n) < g_argc, "argument slot index below argc")
void janet_fixarity(int32_t argc, int32_t fix) { __CPROVER_assume(argc == fix); }
void janet_arity(int32_t argc, int32_t min, int32_t max) { __CPROVER_assume(argc >= min && (max < 0 || argc <= max)); }
JanetByteView janet_getbytes(const Janet *argv, int32_t n) {
  SLOT_OK(n);
  __CPROVER_assert(n == 0 || n == 1, "byte view requested for slot 0 or 1");
  return n == 0 ? g_v0 : g_v1;
}
static int spec_in(const uint8_t *set, int32_t n, uint8_t x) {
  for (int32_t j = 0; j < n; j++) if (set[j] == x) return 1;
  return 0;
}
static void checkset_case(int32_t n) {
  uint8_t *set = malloc((size_t)n);
  __CPROVER_assume(set != (void *)0);
  JanetByteView v; v.bytes = set; v.len = n;
  uint8_t x = nd_u8();
  int r = trim_help_checkset(v, x);
  __CPROVER_assert(r == spec_in(set, n, x), "C17: trim_help_checkset returns 1 exactly when the byte occurs in the set");
  if (r && n > 2) REACH("trim_help_checkset finds the byte");
  if (!r && n > 2) REACH("trim_help_checkset does not find the byte");
}
void h_trim_checkset(void) {
  int32_t n = nd_i32();
  __CPROVER_assume(n >= 0 && n <= LIB_MAXSET);
  for (int32_t c = 0; c <= LIB_MAXSET; c++) if (n == c) checkset_case(c);
}
static void check_set_case(int32_t ns, int32_t nt) {
  uint8_t *set = malloc((size_t)ns), *str = malloc((size_t)nt);
  __CPROVER_assume(set != (void *)0 && str != (void *)0);
  g_v0.bytes = set; g_v0.len = ns; g_v1.bytes = str; g_v1.len = nt;
#ifndef LIB_CHECKSET_ANY_BYTE
  /* domain restriction: for a byte whose low five bits are all set (31, 63 '?', 95 '_', 127, ...) the real code evaluates
   * `1 << 31` in (signed) int - formal undefined behaviour in C99; every compiler of interest yields INT_MIN and the
   * conversion to uint32_t then gives the intended mask. Unit lib.string.checkset.shift31 keeps the obligation. */
  for (int32_t i = 0; i < ns; i++) __CPROVER_assume((set[i] & 0x1F) != 0x1F);
  for (int32_t i = 0; i < nt; i++) __CPROVER_assume((str[i] & 0x1F) != 0x1F);
#endif
  g_argc = nd_i32();
  __CPROVER_assume(g_argc >= 0 && g_argc <= 4);
  Janet argv[4];
  Janet r = cfun_string_checkset(g_argc, argv);
  __CPROVER_assert(g_argc == 2, "C17: string/check-set has arity 2");
  int all = 1;
  for (int32_t i = 0; i < nt; i++) if (!spec_in(set, ns, str[i])) all = 0;
  __CPROVER_assert(r.u64 == (all ? janet_wrap_true().u64 : janet_wrap_false().u64), "C17: string/check-set returns true exactly when every byte of str occurs in set");
  if (all && nt > 1 && ns > 1) REACH("string/check-set returns true");
  if (!all && nt > 1 && ns > 1) REACH("string/check-set returns false");
}
void h_string_checkset(void) {
  int32_t ns = nd_i32(), nt = nd_i32();
  __CPROVER_assume(ns >= 0 && ns <= LIB_MAXSET && nt >= 0 && nt <= LIB_MAXSTR);
  for (int32_t a = 0; a <= LIB_MAXSET; a++)
    for (int32_t b = 0; b <= LIB_MAXSTR; b++)
      if (ns == a && nt == b) check_set_case(a, b);
}
