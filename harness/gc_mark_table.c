/* C01: janet_mark_table - walks the prototype chain (manual tail recursion).  For the ghost-selected level g_lvl of the chain:
 * if the table at that level and all tables before it were unmarked on entry, it is marked on exit and the walker that
 * matches its weakness mode was handed (data, capacity):
 *     TABLE -> janet_mark_kvs, WEAKK (weak keys) -> janet_mark_values, WEAKV (weak values) -> janet_mark_keys, WEAKKV -> none.
 * The walk stops at the first marked table (its prototypes were handled when it was marked).
 * BOUNDED: the loop variable is a pointer (DESIGN R14) - chain length <= 3, unwinding assertion on. */
#include "gc_mark.h"
int g_lvl; int32_t g_f0, g_f1, g_f2;   /* ghost: selected level; entry snapshot of the header flags of each level (0 if absent) */

#define T0(t) (t)
#define T1(t) ((t)->proto)
#define T2(t) ((t)->proto->proto)
#define HAS1(t) (T1(t) != (JanetTable *) 0)
#define HAS2(t) (HAS1(t) && T2(t) != (JanetTable *) 0)
#define IS_TABLE_TYPE(f) (((f) & JANET_MEM_TYPEBITS) == JANET_MEMORY_TABLE || ((f) & JANET_MEM_TYPEBITS) == JANET_MEMORY_TABLE_WEAKK || \
                          ((f) & JANET_MEM_TYPEBITS) == JANET_MEMORY_TABLE_WEAKV || ((f) & JANET_MEM_TYPEBITS) == JANET_MEMORY_TABLE_WEAKKV)
/* the walker the PROPERTY demands for a table of mode f: the strong half of every entry must be marked */
#define KIND_OF(f) (((f) & JANET_MEM_TYPEBITS) == JANET_MEMORY_TABLE ? W_KVS : ((f) & JANET_MEM_TYPEBITS) == JANET_MEMORY_TABLE_WEAKK ? W_VALUES : \
                    ((f) & JANET_MEM_TYPEBITS) == JANET_MEMORY_TABLE_WEAKV ? W_KEYS : 0)
#define UNM(f) (((f) & JANET_MEM_REACHABLE) == 0)
/* the walk reaches level k */
#define REACH0(t) (UNM(g_f0))
#define REACH1(t) (REACH0(t) && HAS1(t) && UNM(g_f1))
#define REACH2(t) (REACH1(t) && HAS2(t) && UNM(g_f2))

static void janet_mark_table_spec(JanetTable *table)
__CPROVER_requires(__CPROVER_is_fresh(table, sizeof(JanetTable)))
__CPROVER_requires(T1(table) == (JanetTable *) 0 || __CPROVER_is_fresh(T1(table), sizeof(JanetTable)))
__CPROVER_requires(T1(table) == (JanetTable *) 0 || T2(table) == (JanetTable *) 0 || __CPROVER_is_fresh(T2(table), sizeof(JanetTable)))
/* bound: chain of at most 3 tables */
__CPROVER_requires(HAS2(table) ==> T2(table)->proto == (JanetTable *) 0)
/* representation invariant: every block of the chain is a table block of one of the four modes */
__CPROVER_requires(IS_TABLE_TYPE(table->gc.flags) && (HAS1(table) ==> IS_TABLE_TYPE(T1(table)->gc.flags)) && (HAS2(table) ==> IS_TABLE_TYPE(T2(table)->gc.flags)))
/* ghost snapshots and selector */
__CPROVER_requires(g_f0 == table->gc.flags && g_f1 == (HAS1(table) ? T1(table)->gc.flags : 0) && g_f2 == (HAS2(table) ? T2(table)->gc.flags : 0))
__CPROVER_requires(g_lvl >= 0 && g_lvl <= 2)
__CPROVER_requires(g_lvl == 0 ==> (g_w_kind == KIND_OF(g_f0) && g_w_base == (const void *) table->data && g_w_n == table->capacity))
__CPROVER_requires((g_lvl == 1 && HAS1(table)) ==> (g_w_kind == KIND_OF(g_f1) && g_w_base == (const void *) T1(table)->data && g_w_n == T1(table)->capacity))
__CPROVER_requires((g_lvl == 2 && HAS2(table)) ==> (g_w_kind == KIND_OF(g_f2) && g_w_base == (const void *) T2(table)->data && g_w_n == T2(table)->capacity))
__CPROVER_requires(!g_w_seen && g_w_calls == 0)
__CPROVER_assigns(table->gc.flags, g_w_seen, g_w_calls)
__CPROVER_assigns(HAS1(table): T1(table)->gc.flags)
__CPROVER_assigns(HAS2(table): T2(table)->gc.flags)
/* C01: each table the walk reaches is marked ... */
__CPROVER_ensures(REACH0(table) ==> table->gc.flags == (g_f0 | JANET_MEM_REACHABLE))
__CPROVER_ensures(REACH1(table) ==> T1(table)->gc.flags == (g_f1 | JANET_MEM_REACHABLE))
__CPROVER_ensures(REACH2(table) ==> T2(table)->gc.flags == (g_f2 | JANET_MEM_REACHABLE))
/* ... and its strong entries are handed to the matching walker over the whole bucket array */
__CPROVER_ensures((g_lvl == 0 && REACH0(table) && KIND_OF(g_f0) != 0) ==> g_w_seen)
__CPROVER_ensures((g_lvl == 1 && REACH1(table) && KIND_OF(g_f1) != 0) ==> g_w_seen)
__CPROVER_ensures((g_lvl == 2 && REACH2(table) && KIND_OF(g_f2) != 0) ==> g_w_seen)
/* a table with weak keys AND weak values keeps nothing alive; one walker call per strong-ish table reached */
__CPROVER_ensures(g_w_calls == (REACH0(table) && KIND_OF(g_f0) != 0 ? 1u : 0u) + (REACH1(table) && KIND_OF(g_f1) != 0 ? 1u : 0u) + (REACH2(table) && KIND_OF(g_f2) != 0 ? 1u : 0u))
/* nothing else changes: tables not reached keep their header */
__CPROVER_ensures(!REACH0(table) ==> table->gc.flags == g_f0)
__CPROVER_ensures((HAS1(table) && !REACH1(table)) ==> T1(table)->gc.flags == g_f1)
__CPROVER_ensures((HAS2(table) && !REACH2(table)) ==> T2(table)->gc.flags == g_f2)
;

void h_mark_table(void) {
  JanetTable *t;
  janet_mark_table(t);
  REACH("janet_mark_table returns");
}
