/* C15: inlined put (cfuns.c do_put). (put ds key value) evaluates to ds; inlined, the result may have to go to a target
 * slot that is ALSO one of the operands (e.g. (set k (put ds k v)): the target is the variable k). Contract: the PUT
 * instruction is emitted on the three operand slots themselves, BEFORE anything is written to the target; afterwards the
 * target receives ds; when the value is dropped nothing else is emitted. Emitters are recording stubs. */
#include "prelude.h"
static int cp_seq, cp_put_seq, cp_copy_seq, cp_puts, cp_copies; static JanetSlot cp_t, cp_a[3]; static JanetSlot cp_put_ops[3], cp_copy_dst, cp_copy_src;
static int cp_sloteq(JanetSlot x, JanetSlot y) { return x.index == y.index && x.envindex == y.envindex && x.flags == y.flags; }
JanetSlot cp_gettarget_stub(JanetFopts o) { return cp_t; }
int32_t cp_emit_sss_stub(JanetCompiler *c, uint8_t op, JanetSlot s1, JanetSlot s2, JanetSlot s3, int wr) {
  __CPROVER_assert(op == JOP_PUT && wr == 0, "cfuns.put: the only instruction is PUT, which writes no slot");
  cp_puts++; cp_put_seq = ++cp_seq; cp_put_ops[0] = s1; cp_put_ops[1] = s2; cp_put_ops[2] = s3; return 0;
}
void cp_copy_stub(JanetCompiler *c, JanetSlot d, JanetSlot s) { cp_copies++; cp_copy_seq = ++cp_seq; cp_copy_dst = d; cp_copy_src = s; }
static struct { int32_t cap, cnt; JanetSlot data[3]; } cp_args;
void h_do_put(void) {
  JanetCompiler comp; JanetFopts opts; opts.compiler = &comp; opts.flags = nd_u32();
  for (int i = 0; i < 3; i++) { cp_a[i].index = nd_i32(); cp_a[i].envindex = -1; cp_a[i].flags = 0; cp_a[i].constant.type = JANET_NIL; cp_a[i].constant.as.u64 = 0; cp_args.data[i] = cp_a[i]; }
  /* the target may be any slot, in particular one of the operands */
  cp_t.index = nd_i32(); cp_t.envindex = -1; cp_t.flags = 0; cp_t.constant.type = JANET_NIL; cp_t.constant.as.u64 = 0;
  cp_args.cap = 3; cp_args.cnt = 3; cp_seq = cp_puts = cp_copies = 0;
  JanetSlot r = do_put(opts, cp_args.data);
  __CPROVER_assert(cp_puts == 1 && cp_sloteq(cp_put_ops[0], cp_a[0]) && cp_sloteq(cp_put_ops[1], cp_a[1]) && cp_sloteq(cp_put_ops[2], cp_a[2]), "cfuns.put: exactly one PUT, on the data structure, key and value slots themselves, in that order");
  if (opts.flags & JANET_FOPTS_DROP) {
    __CPROVER_assert(cp_copies == 0 && (r.flags & JANET_SLOT_CONSTANT), "cfuns.put: a dropped put emits nothing else");
    REACH("put: value dropped");
  } else {
    __CPROVER_assert(cp_copies == 1 && cp_put_seq < cp_copy_seq, "cfuns.put: the target is written only after PUT has read its operands (the target may be the key or value variable)");
    __CPROVER_assert(cp_sloteq(cp_copy_dst, cp_t) && cp_sloteq(cp_copy_src, cp_a[0]) && cp_sloteq(r, cp_t), "cfuns.put: the form evaluates to the data structure, delivered in the target");
    if (cp_t.index == cp_a[1].index) REACH("put: target is the key variable");
    REACH("put: value used");
  }
}
