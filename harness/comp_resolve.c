/* C02 "shadowing", "closures", "the result does not depend on the context the code is compiled in (top level, nested
 * function ...)": symbol resolution, janetc_resolve (compile.c), on a chain of 1..3 scopes.
 *
 * Language rule: a symbol denotes its innermost lexically enclosing binding (in one scope the latest definition); a binding
 * of the same function is a register of the frame; a binding of an enclosing function is reached through the closure's
 * captured environments; an unbound symbol denotes the global of that name (constant for def, one-element reference array
 * for var and dynamic def) and is an error when there is none.
 *
 * What "reached through the captured environments" means is fixed by the interpreter (vm.c JOP_CLOSURE, JOP_LOAD_UPVALUE):
 * environment j of a closure of definition D created in function P is P's own frame when D.environments[j] == -1 and P's
 * environment number D.environments[j] otherwise; janetc_pop_funcdef copies D.environments[j] from scope->envs[j].envindex.
 * So with  Env(F, j) = parent function of F                     if F.envs[j].envindex == -1
 *                    = Env(parent function of F, F.envs[j].envindex)   otherwise
 * the contract for a binding found in function scope Fdef from code in function scope Fcur != Fdef is
 *      Env(Fcur, result.envindex) == Fdef   and   result.index == the binding's register,
 * Fdef is marked as having a captured frame (JANET_SCOPE_ENV, register recorded in its upvalue set), the binding is kept
 * (its register is not reused when its block ends), and no existing environment reference changes (instructions already
 * emitted name them by index). */
#include "prelude.h"

#define RS_NSYM 2
#define RS_NENV 4
static JanetCompiler rs_c;
/* three separate scope objects (not an array: every access below has a constant scope number after unrolling) */
static JanetScope rs_sc0, rs_sc1, rs_sc2;
static JanetScope *const rs_scp[3] = { &rs_sc0, &rs_sc1, &rs_sc2 };
#define rs_sc(i) (*rs_scp[i])
static int rs_depth;
typedef struct { int32_t cap, cnt; SymPair data[RS_NSYM]; } rs_symvec;
typedef struct { int32_t cap, cnt; JanetEnvRef data[RS_NENV]; } rs_envvec;
static rs_symvec rs_symmem0, rs_symmem1, rs_symmem2;
static rs_envvec rs_envmem0, rs_envmem1, rs_envmem2;
static rs_symvec *const rs_symp[3] = { &rs_symmem0, &rs_symmem1, &rs_symmem2 };
static rs_envvec *const rs_envp[3] = { &rs_envmem0, &rs_envmem1, &rs_envmem2 };
#define rs_symmem(i) (*rs_symp[i])
#define rs_envmem(i) (*rs_envp[i])
static int rs_fdef_expected = -1;
static int rs_env_used[3];
static uint8_t rs_sym_a[4], rs_sym_b[4];
static int rs_errors;

/* scope->envs is NULL until the first reference is added: the first push allocates (vector.c, proved in comp.srcmap.emit);
 * here the block of the scope that is being extended is handed out */
void *rs_grow_stub(void *v, int32_t increment, int32_t itemsize) {
    __CPROVER_assert(v == (void *)0 && itemsize == (int32_t) sizeof(JanetEnvRef), "harness: only an empty environment vector is allocated (capacity suffices)");
    /* references are added from the defining function's child down to the current scope: the vector being created is that
     * of the first function scope below the defining function that has none yet */
    for (int k = 1; k < 3; k++) if (k > rs_fdef_expected && k < rs_depth && (rs_sc(k).flags & JANET_SCOPE_FUNCTION) && !rs_env_used[k]) {
        rs_env_used[k] = 1; rs_envmem(k).cap = RS_NENV; rs_envmem(k).cnt = 0;
        return rs_envmem(k).data;
    }
    __CPROVER_assert(0, "harness: an environment vector is created only for a function scope below the defining function");
    __CPROVER_assume(0);
    return v;
}
static JanetScope *rs_touch_scope; static int32_t rs_touch_reg; static int rs_touches;
void rs_touch_stub(JanetcRegisterAllocator *ra, int32_t reg) {
    rs_touches++; rs_touch_reg = reg;
    for (int i = 0; i < 3; i++) if (ra == &rs_sc(i).ua) rs_touch_scope = rs_scp[i];
}
const uint8_t *rs_formatc_stub(const char *format, ...) { static uint8_t msg[4]; return msg; }
/* the global environment */
static JanetBinding rs_binding; static int rs_ext_calls;
JanetBinding rs_resolve_ext_stub(JanetTable *env, const uint8_t *sym) { rs_ext_calls++; __CPROVER_assert(sym == rs_sym_a, "comp.resolve: the global looked up is the symbol itself"); return rs_binding; }
static Janet rs_handler;
Janet rs_table_get_stub(JanetTable *t, Janet key) { return rs_handler; }
const uint8_t *rs_csymbol_stub(const char *s) { static uint8_t kw[4]; return kw; }
static int rs_missing_calls, rs_missing_answer; static JanetBinding rs_missing_binding;
int rs_lookup_missing_stub(JanetCompiler *c, const uint8_t *sym, JanetFunction *handler, JanetBinding *out) {
    rs_missing_calls++;
    if (rs_missing_answer) *out = rs_missing_binding; else janetc_error(c, rs_sym_b);
    return rs_missing_answer;
}
static int rs_lints;
void rs_lintf_stub(JanetCompiler *c, JanetCompileLintLevel level, const char *format, ...) { rs_lints++; }

/* scalar snapshots of the scopes (taken with constant scope numbers), on which the contract is stated */
static int rs_fn[3]; static int32_t rs_ecnt[3]; static int32_t rs_eidx[3][RS_NENV];
static void rs_snapshot(void) {
    for (int i = 0; i < 3; i++) {
        rs_fn[i] = i < rs_depth && (rs_sc(i).flags & JANET_SCOPE_FUNCTION) != 0;
        rs_ecnt[i] = i < rs_depth ? janet_v_count(rs_sc(i).envs) : 0;
        for (int k = 0; k < RS_NENV; k++) rs_eidx[i][k] = (i < rs_depth && k < rs_ecnt[i]) ? rs_sc(i).envs[k].envindex : -2;
    }
}
static int rs_is_fn(int i) { return rs_fn[i]; }
static int rs_parent_fn(int i) { return (i == 2 && rs_fn[1]) ? 1 : (i >= 1 ? 0 : -1); }
static int rs_fn_of(int i) { return (i == 2 && rs_fn[2]) ? 2 : (i >= 1 && rs_fn[1]) ? 1 : 0; }
static int32_t rs_envcount(int i) { return rs_ecnt[i]; }
/* Env(F, j): the function scope whose frame environment j of function scope f is at run time; -1 when ill-formed */
static int rs_env_target(int f, int32_t j) {
    for (int step = 0; step < 3; step++) {
        if (f < 0 || f > 2 || !rs_fn[f]) return -1;
        int pf = rs_parent_fn(f);
        if (pf < 0 || j < 0 || j >= rs_ecnt[f] || j >= RS_NENV) return -1;
        int32_t e = rs_eidx[f][j];
        if (e == -1) return pf;
        f = pf; j = e;
    }
    return -1;
}
static JanetSlot rs_mkslot(void) {
    JanetSlot s; int kind = nd_int();
    uint32_t ty = nd_u32(); __CPROVER_assume(ty <= JANET_POINTER);
    s.constant.type = (JanetType) ty; s.constant.as.u64 = nd_u64();
    s.flags = (nd_u32() & (JANET_SLOTTYPE_ANY | JANET_SLOT_MUTABLE | JANET_SLOT_DEP_NOTE)) | JANET_SLOT_NAMED;
    s.envindex = -1; s.index = -1;
    if (kind == 0) { s.index = nd_i32(); __CPROVER_assume(s.index >= 0 && s.index <= 0xFFFF); }     /* a register of the defining function's frame */
    else if (kind == 1) s.flags |= JANET_SLOT_CONSTANT;                                           /* (def x <constant>) */
    else { s.flags |= JANET_SLOT_REF; s.constant.type = JANET_ARRAY; }                             /* top-level var */
    return s;
}
static int rs_same_slot(JanetSlot a, JanetSlot b) {
    return a.index == b.index && a.envindex == b.envindex && a.flags == b.flags && a.constant.type == b.constant.type && a.constant.as.u64 == b.constant.as.u64;
}

/* KNOWN FINDING (-DRS_UPVALUE_RANGE). JOP_LOAD_UPVALUE / JOP_SET_UPVALUE address the environment and the register with 8 bits
 * each (vm.c: B, C). In a function of its own so that the obligation name rs_check_upvalue_range.assertion.1 is stable. */
static void rs_check_upvalue_range(JanetSlot ret, int err) {
    __CPROVER_assert(err || (ret.index <= 0xFF && ret.envindex <= 0xFF), "comp.resolve.upvalue-range: an upvalue slot is addressable by LOAD_UPVALUE / SET_UPVALUE (captured register and environment number fit 8 bits), or the compiler reports an error");
}
void h_resolve(void) {
    rs_depth = nd_int();
    __CPROVER_assume(rs_depth >= 1 && rs_depth <= 3);
    int32_t flags0[3]; int32_t envcnt0[3]; int32_t env0[3][RS_NENV]; int keep0[3][RS_NSYM]; int32_t flags1[3]; int keep1[3][RS_NSYM];
    for (int i = 0; i < 3; i++) {
        rs_sc(i).parent = i > 0 ? rs_scp[i - 1] : (JanetScope *)0;
        rs_sc(i).child = (i + 1 < rs_depth) ? rs_scp[i + 1] : (JanetScope *)0;
        rs_sc(i).flags = nd_int() & (JANET_SCOPE_FUNCTION | JANET_SCOPE_UNUSED | JANET_SCOPE_WHILE | JANET_SCOPE_CLOSURE | JANET_SCOPE_ENV | JANET_SCOPE_TOP);
        if (i == 0) rs_sc(i).flags |= JANET_SCOPE_FUNCTION;         /* the root scope of a compilation is a function scope (janet_compile) */
        rs_sc(i).consts = (Janet *)0; rs_sc(i).defs = (JanetFuncDef **)0;
        /* bindings */
        int32_t ns = nd_i32(); __CPROVER_assume(ns >= 0 && ns <= RS_NSYM);
        rs_symmem(i).cap = RS_NSYM; rs_symmem(i).cnt = ns;
        for (int k = 0; k < RS_NSYM; k++) {
            int w = nd_int();
            rs_symmem(i).data[k].sym = w == 0 ? rs_sym_a : w == 1 ? rs_sym_b : (const uint8_t *)0;      /* NULL: a binding of a block that has ended */
            rs_symmem(i).data[k].sym2 = rs_symmem(i).data[k].sym;
            rs_symmem(i).data[k].slot = rs_mkslot();
            rs_symmem(i).data[k].keep = nd_int() & 1; keep0[i][k] = rs_symmem(i).data[k].keep;
            rs_symmem(i).data[k].birth_pc = 0; rs_symmem(i).data[k].death_pc = UINT32_MAX;
        }
        rs_sc(i).syms = (ns > 0 || nd_int()) ? rs_symmem(i).data : (SymPair *)0;
        /* environment references that exist already (only function scopes below the root have any) */
        int32_t ne = nd_i32(); __CPROVER_assume(ne >= 0 && ne <= 2);
        if (i == 0 || !(rs_sc(i).flags & JANET_SCOPE_FUNCTION)) ne = 0;
        rs_envmem(i).cap = RS_NENV; rs_envmem(i).cnt = ne; rs_env_used[i] = ne > 0;
        rs_sc(i).envs = ne > 0 ? rs_envmem(i).data : (JanetEnvRef *)0;
        for (int k = 0; k < RS_NENV; k++) { rs_envmem(i).data[k].envindex = nd_i32(); rs_envmem(i).data[k].scope = (JanetScope *)0; }
        flags0[i] = rs_sc(i).flags;
    }
    rs_snapshot();
    /* representation invariant of existing references: each designates a frame (Env defined) */
    for (int i = 1; i < 3; i++) for (int k = 0; k < 2; k++) if (i < rs_depth && k < rs_envcount(i)) __CPROVER_assume(rs_env_target(i, k) >= 0);
    for (int i = 0; i < 3; i++) { envcnt0[i] = rs_envcount(i); for (int k = 0; k < RS_NENV; k++) env0[i][k] = rs_eidx[i][k]; }
    rs_c.scope = rs_depth == 1 ? &rs_sc0 : rs_depth == 2 ? &rs_sc1 : &rs_sc2;
    rs_c.result.status = JANET_COMPILE_OK; rs_c.lints = (JanetArray *)0; rs_c.env = (JanetTable *)0;
    rs_errors = rs_touches = rs_ext_calls = rs_missing_calls = rs_lints = 0; rs_touch_scope = (JanetScope *)0;
    /* the global environment's answer */
    { uint32_t bt = nd_u32(); __CPROVER_assume(bt <= JANET_BINDING_DYNAMIC_MACRO); rs_binding.type = (JanetBindingType) bt;
      uint32_t ty = nd_u32(); __CPROVER_assume(ty <= JANET_POINTER); rs_binding.value.type = (JanetType) ty; rs_binding.value.as.u64 = nd_u64();
      uint32_t dp = nd_u32(); __CPROVER_assume(dp <= JANET_BINDING_DEP_STRICT); rs_binding.deprecation = dp; }
    { uint32_t ty = nd_u32(); __CPROVER_assume(ty <= JANET_POINTER); rs_handler.type = (JanetType) ty; rs_handler.as.u64 = 0; }
    rs_missing_answer = nd_int() & 1; rs_missing_binding = rs_binding; rs_missing_binding.type = JANET_BINDING_DEF;

    /* the rule: innermost scope first, in a scope the latest binding */
    int def_sc = -1, def_k = -1;
    for (int i = 2; i >= 0; i--) if (i < rs_depth && def_sc < 0)
        for (int k = RS_NSYM - 1; k >= 0; k--) if (k < rs_symmem(i).cnt && rs_sc(i).syms != (SymPair *)0 && def_sc < 0 && rs_symmem(i).data[k].sym == rs_sym_a) { def_sc = i; def_k = k; }
    int crossed = 0, unused = 0;
    for (int i = 0; i < 3; i++) if (i < rs_depth && def_sc >= 0 && i >= def_sc) { if (rs_sc(i).flags & JANET_SCOPE_UNUSED) unused = 1; if (i > def_sc && rs_fn[i]) crossed = 1; }
    rs_fdef_expected = def_sc < 0 ? -1 : rs_fn_of(def_sc);
    JanetSlot bound; { int found = 0; for (int i = 0; i < 3; i++) for (int k = 0; k < RS_NSYM; k++) if (i == def_sc && k == def_k) { bound = rs_symmem(i).data[k].slot; found = 1; } if (!found) bound = rs_mkslot(); }

    JanetSlot ret = janetc_resolve(&rs_c, rs_sym_a);

    rs_snapshot();
    for (int i = 0; i < 3; i++) { flags1[i] = rs_sc(i).flags; for (int k = 0; k < RS_NSYM; k++) keep1[i][k] = rs_symmem(i).data[k].keep; }
    int err = rs_c.result.status == JANET_COMPILE_ERROR;
    int32_t g = nd_i32(), gk = nd_i32();
    __CPROVER_assume(g >= 0 && g < rs_depth && gk >= 0 && gk < RS_NENV);
    /* frame, always: existing references are stable, block scopes never get references, bindings are not rewritten */
    __CPROVER_assert(rs_envcount(g) >= envcnt0[g], "comp.resolve: environment references are only ever appended");
    __CPROVER_assert(gk >= envcnt0[g] || (rs_eidx[g][gk] == env0[g][gk]), "comp.resolve: existing environment references keep their index and meaning");
    __CPROVER_assert(rs_is_fn(g) || rs_envcount(g) == 0, "comp.resolve: only function scopes reference environments");
    __CPROVER_assert((flags1[g] & ~JANET_SCOPE_ENV) == (flags0[g] & ~JANET_SCOPE_ENV), "comp.resolve: no other scope flag changes");

    if (def_sc < 0) {
        /* not lexically bound: the global of that name */
        __CPROVER_assert(rs_ext_calls == 1, "comp.resolve: an unbound symbol is looked up in the environment");
        __CPROVER_assert(rs_envcount(g) == envcnt0[g] && flags1[g] == flags0[g] && rs_touches == 0, "comp.resolve: resolving a global changes no scope");
        JanetBinding b = rs_binding;
        if (b.type == JANET_BINDING_NONE && rs_handler.type == JANET_FUNCTION && rs_missing_answer) b = rs_missing_binding;
        if (b.type == JANET_BINDING_NONE) {
            __CPROVER_assert(err, "comp.resolve: a symbol with no binding at all is a compile error");
            REACH("resolve: unknown symbol");
        } else {
            __CPROVER_assert(!err, "comp.resolve: a global binding resolves without error");
            __CPROVER_assert(ret.constant.type == b.value.type && ret.constant.as.u64 == b.value.as.u64 && ret.index == -1 && ret.envindex == -1, "comp.resolve: the slot carries the binding's value");
            if (b.type == JANET_BINDING_DEF || b.type == JANET_BINDING_MACRO) {
                __CPROVER_assert((ret.flags & JANET_SLOT_CONSTANT) && !(ret.flags & (JANET_SLOT_REF | JANET_SLOT_MUTABLE)), "comp.resolve: a def is a constant");
                REACH("resolve: global def");
            } else {
                __CPROVER_assert((ret.flags & JANET_SLOT_REF) && !(ret.flags & JANET_SLOT_CONSTANT) && (ret.flags & JANET_SLOT_NAMED), "comp.resolve: a var or redefinable binding is read through its reference array at run time");
                __CPROVER_assert(((ret.flags & JANET_SLOT_MUTABLE) != 0) == (b.type == JANET_BINDING_VAR), "comp.resolve: only a var is assignable");
                if (b.type == JANET_BINDING_VAR) REACH("resolve: global var"); else REACH("resolve: dynamic def");
            }
            __CPROVER_assert((rs_lints > 0) == (b.deprecation != JANET_BINDING_DEP_NONE), "comp.resolve: a deprecated binding is reported to the linter");
        }
        return;
    }
    __CPROVER_assert(!err && rs_ext_calls == 0, "comp.resolve: a lexically bound symbol never consults the environment (shadowing)");
    if (bound.flags & (JANET_SLOT_CONSTANT | JANET_SLOT_REF)) {
        __CPROVER_assert(rs_same_slot(ret, bound), "comp.resolve: a constant or reference binding is the same in every context");
        __CPROVER_assert(rs_envcount(g) == envcnt0[g] && flags1[g] == flags0[g] && rs_touches == 0, "comp.resolve: ... and captures nothing");
        REACH("resolve: constant binding");
        return;
    }
    __CPROVER_assert(ret.index == bound.index && ret.flags == bound.flags, "comp.resolve: the innermost binding wins (in one scope the latest)");
    if (def_sc < rs_depth - 1) REACH("resolve: binding of an outer scope");
    if (!crossed || unused) {
        __CPROVER_assert(ret.envindex == -1, "comp.resolve: a binding of the same function is a register of the frame");
        __CPROVER_assert(rs_envcount(g) == envcnt0[g] && flags1[g] == flags0[g] && rs_touches == 0 && keep1[def_sc][def_k] == keep0[def_sc][def_k],
                         "comp.resolve: a local (or dead-code) reference captures nothing");
        if (crossed) REACH("resolve: dead code does not capture"); else REACH("resolve: local");
        return;
    }
    /* upvalue */
    int fdef = rs_fn_of(def_sc), fcur = rs_fn_of(rs_depth - 1);
    __CPROVER_assert(fdef >= 0 && fcur > fdef, "harness: function scopes");
    __CPROVER_assert(ret.envindex >= 0 && ret.envindex < rs_envcount(fcur), "comp.resolve: a binding of an enclosing function is an upvalue of the current function");
    __CPROVER_assert(rs_env_target(fcur, ret.envindex) == fdef, "comp.resolve: at run time the named environment is the frame of the function that holds the binding");
    __CPROVER_assert(flags1[fdef] & JANET_SCOPE_ENV, "comp.resolve: the defining function is marked as having a captured frame");
    __CPROVER_assert(rs_touches == 1 && ((fdef == 0 && rs_touch_scope == &rs_sc0) || (fdef == 1 && rs_touch_scope == &rs_sc1)) && rs_touch_reg == bound.index, "comp.resolve: the captured register is recorded in the defining function's upvalue set");
    __CPROVER_assert(keep1[def_sc][def_k] == 1, "comp.resolve: the captured binding is kept, so its register is not reused after its block ends");
    __CPROVER_assert(g == fdef || (flags1[g] == flags0[g]), "comp.resolve: no other scope is marked");
    if (fcur - fdef == 2 && rs_is_fn(1)) REACH("resolve: upvalue through two function levels");
    if (envcnt0[fcur] > 0 && rs_envcount(fcur) == envcnt0[fcur]) REACH("resolve: existing environment reference reused");
#ifdef RS_UPVALUE_RANGE
    rs_check_upvalue_range(ret, err);
#endif
    if (ret.index > 0xFF) REACH("resolve: captured register beyond 255");
    REACH("resolve: upvalue");
}
