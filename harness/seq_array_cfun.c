/* C04/C17: the registered C functions of array.c (array/push, insert, remove, slice, fill, ...) under contract.
 * The argument getters of capi.c are trusted stubs returning well-formed objects: slot 0 is the array g_arr built by
 * the harness (any wf_array), integer slots return an arbitrary but fixed int32 derived from the slot's bits; every
 * stub asserts that the slot index is below argc ("argument index checked before use"). */
#include "seq_common.h"

JanetArray *g_arr;
int32_t g_argc;
JanetView g_view;            /* slot 0 of array/slice: any indexed view (len >= 0, items valid for len) */
int32_t g_j;                 /* second ghost index (into the pushed / inserted arguments) */

#define SLOT_OK(n) __CPROVER_assert((n) >= 0 && (n) < g_argc, "argument slot index below argc")
/* low 32 bits of the slot as a signed integer, written without an out-of-range conversion */
#define SLOT_INT(argv, n) ((int32_t)((int64_t)((argv)[n].u64 & 0xFFFFFFFFull) - (((argv)[n].u64 & 0x80000000ull) ? 0x100000000ll : 0ll)))
void janet_fixarity(int32_t argc, int32_t fix) { __CPROVER_assume(argc == fix); }
void janet_arity(int32_t argc, int32_t min, int32_t max) { __CPROVER_assume(argc >= min && (max < 0 || argc <= max)); }
JanetArray *janet_getarray(const Janet *argv, int32_t n) { SLOT_OK(n); __CPROVER_assert(n == 0, "array is slot 0"); return g_arr; }
int32_t janet_getinteger(const Janet *argv, int32_t n) { SLOT_OK(n); return SLOT_INT(argv, n); }
int32_t janet_getnat(const Janet *argv, int32_t n) { SLOT_OK(n); __CPROVER_assume(SLOT_INT(argv, n) >= 0); return SLOT_INT(argv, n); }
JanetView janet_getindexed(const Janet *argv, int32_t n) { SLOT_OK(n); __CPROVER_assert(n == 0, "view is slot 0"); return g_view; }
/* contract proved in unit seq.capi.getslice (length = length of slot 0) */
JanetRange janet_getslice(int32_t argc, const Janet *argv) {
  JanetRange r; r.start = nd_i32(); r.end = nd_i32();
  __CPROVER_assume(argc >= 1 && argc <= 3 && 0 <= r.start && r.start <= r.end && r.end <= g_view.len);
  return r;
}
void *janet_gcalloc(enum JanetMemoryType type, size_t size) { void *p = malloc(size); __CPROVER_assume(p != SEQ_NULL); return p; }

static Janet *mk_args(void) {
  g_argc = nd_i32();
  __CPROVER_assume(g_argc >= 0);
  Janet *argv = malloc((size_t)g_argc * sizeof(Janet));
  __CPROVER_assume(argv != SEQ_NULL);
  g_arr = mk_array();
  return argv;
}

#define GHOST_IN(a) (g_idx >= 0 && g_idx < (a)->count)
#define CF_PRE \
  __CPROVER_requires(argc == g_argc && argc >= 0 && __CPROVER_r_ok(argv, (size_t)argc * JSZ)) \
  __CPROVER_requires(WF_ARRAY(g_arr)) \
  __CPROVER_requires(g_oldcount == g_arr->count && g_oldcap == g_arr->capacity) \
  __CPROVER_requires(GHOST_IN(g_arr) ==> A_ELEM(g_arr, g_idx) == g_val)
#define CF_FRAME \
  __CPROVER_assigns(g_arr->data, g_arr->capacity, g_arr->count, janet_vm.next_collection; g_arr->capacity > 0: __CPROVER_object_whole(g_arr->data)) \
  __CPROVER_frees(g_arr->data)
#define RET_ARG0 __CPROVER_ensures(argc >= 1 && __CPROVER_return_value.u64 == argv[0].u64)

/* (array/push arr & xs): length grows by the number of xs (raises instead of overflowing INT32_MAX), xs appended in
 * order, prefix unchanged, returns arr */
static Janet cfun_array_push_c(int32_t argc, Janet *argv)
CF_PRE CF_FRAME RET_ARG0
__CPROVER_ensures(WF_ARRAY(g_arr))
__CPROVER_ensures((int64_t)g_arr->count == (int64_t)g_oldcount + argc - 1)
__CPROVER_ensures((g_idx >= 0 && g_idx < g_oldcount) ==> A_ELEM(g_arr, g_idx) == g_val)
__CPROVER_ensures((g_j >= 0 && g_j < argc - 1 && (size_t)g_j == g_mm) ==> A_ELEM(g_arr, g_oldcount + g_j) == argv[1 + g_j].u64)
;
void h_cfun_array_push(void) {
  Janet *argv = mk_args();
  cfun_array_push(g_argc, argv);
  REACH("array/push returns");
  if (g_argc > 1 && g_arr->capacity != g_oldcap) REACH("array/push returns after growing");
}

/* (array/insert arr at & xs): at in [0,len] (negative: from the end, -1 appends), else raises; result is
 * prefix [0,at) ++ xs ++ old [at,len); raises instead of overflowing; returns arr */
#define INS_AT(argv) (SLOT_INT(argv, 1) < 0 ? (int64_t)SLOT_INT(argv, 1) + g_oldcount + 1 : (int64_t)SLOT_INT(argv, 1))
static Janet cfun_array_insert_c(int32_t argc, Janet *argv)
CF_PRE CF_FRAME RET_ARG0
/* domain restriction: the real code computes `array->count + argc - 2` left to right; for count + argc in
 * {INT32_MAX+1, INT32_MAX+2} (a 16 GiB array) the intermediate sum overflows although the result fits */
__CPROVER_requires((int64_t)g_arr->count + argc <= INT32_MAX)
__CPROVER_ensures(WF_ARRAY(g_arr))
__CPROVER_ensures(argc >= 2 && INS_AT(argv) >= 0 && INS_AT(argv) <= g_oldcount)
__CPROVER_ensures((int64_t)g_arr->count == (int64_t)g_oldcount + argc - 2)
__CPROVER_ensures((g_idx >= 0 && g_idx < INS_AT(argv) && g_idx < g_oldcount) ==> A_ELEM(g_arr, g_idx) == g_val)
__CPROVER_ensures((g_idx >= INS_AT(argv) && g_idx < g_oldcount && g_mm == (size_t)(g_idx - INS_AT(argv))) ==> A_ELEM(g_arr, g_idx + argc - 2) == g_val)
__CPROVER_ensures((g_j >= 0 && g_j < argc - 2 && (size_t)g_j == g_mm) ==> A_ELEM(g_arr, INS_AT(argv) + g_j) == argv[2 + g_j].u64)
;
void h_cfun_array_insert(void) {
  Janet *argv = mk_args();
  cfun_array_insert(g_argc, argv);
  REACH("array/insert returns");
  if (g_argc > 2 && INS_AT(argv) < g_oldcount) REACH("array/insert returns after moving the tail");
}

/* (array/remove arr at &opt n): at in [0,len] (negative: from the end), n >= 0, else raises; removes
 * min(n, len-at) elements starting at at: prefix unchanged, tail moved down; returns arr */
#define REM_AT(argv) (SLOT_INT(argv, 1) < 0 ? (int64_t)SLOT_INT(argv, 1) + g_oldcount : (int64_t)SLOT_INT(argv, 1))
#define REM_N0(argc, argv) ((argc) == 3 ? (int64_t)SLOT_INT(argv, 2) : (int64_t)1)
#define REM_N(argc, argv) (REM_N0(argc, argv) > g_oldcount - REM_AT(argv) ? g_oldcount - REM_AT(argv) : REM_N0(argc, argv))
static Janet cfun_array_remove_c(int32_t argc, Janet *argv)
CF_PRE CF_FRAME RET_ARG0
#ifdef SEQ_REMOVE_NO_OVERFLOW
/* restricted variant (unit seq.cfun.array.remove.small-n): at + n representable. The unrestricted unit fails, see known defect */
__CPROVER_requires(argc < 2 || REM_N0(argc, argv) + g_arr->count <= INT32_MAX)
#endif
__CPROVER_ensures(WF_ARRAY(g_arr))
__CPROVER_ensures(argc >= 2 && argc <= 3 && REM_AT(argv) >= 0 && REM_AT(argv) <= g_oldcount && REM_N0(argc, argv) >= 0)
__CPROVER_ensures((int64_t)g_arr->count == g_oldcount - REM_N(argc, argv))
__CPROVER_ensures((g_idx >= 0 && g_idx < REM_AT(argv) && g_idx < g_oldcount) ==> A_ELEM(g_arr, g_idx) == g_val)
__CPROVER_ensures((g_idx >= REM_AT(argv) + REM_N(argc, argv) && g_idx < g_oldcount && g_mm == (size_t)(g_idx - REM_AT(argv) - REM_N(argc, argv))) ==>
                  A_ELEM(g_arr, g_idx - REM_N(argc, argv)) == g_val)
;
void h_cfun_array_remove(void) {
  Janet *argv = mk_args();
  cfun_array_remove(g_argc, argv);
  REACH("array/remove returns");
  if (g_arr->count < g_oldcount && REM_AT(argv) < g_arr->count) REACH("array/remove returns after moving the tail");
}

/* (array/ensure arr capacity growth): capacity at least the requested one, contents unchanged */
static Janet cfun_array_ensure_c(int32_t argc, Janet *argv)
CF_PRE CF_FRAME RET_ARG0
#ifdef SEQ_ENSURE_GROWTH_POS
/* restricted variant (unit seq.cfun.array.ensure.growth-pos): growth >= 1. The unrestricted unit fails, see known defect */
__CPROVER_requires(argc < 3 || SLOT_INT(argv, 2) >= 1)
#endif
__CPROVER_ensures(WF_ARRAY(g_arr))
__CPROVER_ensures(argc == 3 && g_arr->count == g_oldcount && g_arr->capacity >= SLOT_INT(argv, 1) && g_arr->capacity >= g_oldcap)
__CPROVER_ensures(GHOST_IN(g_arr) ==> A_ELEM(g_arr, g_idx) == g_val)
;
void h_cfun_array_ensure(void) {
  Janet *argv = mk_args();
  cfun_array_ensure(g_argc, argv);
  REACH("array/ensure returns");
}

/* (array/pop arr), (array/peek arr), (array/clear arr) */
static Janet cfun_array_pop_c(int32_t argc, Janet *argv)
CF_PRE CF_FRAME
__CPROVER_ensures(WF_ARRAY(g_arr) && argc == 1)
__CPROVER_ensures(g_oldcount == 0 ==> (g_arr->count == 0 && __CPROVER_return_value.u64 == NIL_BITS))
__CPROVER_ensures(g_oldcount > 0 ==> (g_arr->count == g_oldcount - 1 && __CPROVER_return_value.u64 == A_ELEM(g_arr, g_oldcount - 1)))
__CPROVER_ensures((g_idx >= 0 && g_idx < g_oldcount) ==> A_ELEM(g_arr, g_idx) == g_val)
;
static Janet cfun_array_peek_c(int32_t argc, Janet *argv)
CF_PRE __CPROVER_assigns()
__CPROVER_ensures(WF_ARRAY(g_arr) && argc == 1 && g_arr->count == g_oldcount)
__CPROVER_ensures(g_oldcount == 0 ==> __CPROVER_return_value.u64 == NIL_BITS)
__CPROVER_ensures(g_oldcount > 0 ==> __CPROVER_return_value.u64 == A_ELEM(g_arr, g_oldcount - 1))
;
static Janet cfun_array_clear_c(int32_t argc, Janet *argv)
CF_PRE __CPROVER_assigns(g_arr->count) RET_ARG0
__CPROVER_ensures(WF_ARRAY(g_arr) && argc == 1 && g_arr->count == 0 && g_arr->capacity == g_oldcap)
;
void h_cfun_array_pop(void) { Janet *argv = mk_args(); SEQ_CHECK_NIL(); cfun_array_pop(g_argc, argv); REACH("array/pop returns"); }
void h_cfun_array_peek(void) { Janet *argv = mk_args(); SEQ_CHECK_NIL(); cfun_array_peek(g_argc, argv); REACH("array/peek returns"); }
void h_cfun_array_clear(void) { Janet *argv = mk_args(); cfun_array_clear(g_argc, argv); REACH("array/clear returns"); }

/* (array/trim arr): capacity becomes the length (0 and no block for the empty array), contents unchanged */
static Janet cfun_array_trim_c(int32_t argc, Janet *argv)
CF_PRE CF_FRAME RET_ARG0
__CPROVER_ensures(WF_ARRAY(g_arr) && argc == 1 && g_arr->count == g_oldcount && g_arr->capacity == g_oldcount)
__CPROVER_ensures(GHOST_IN(g_arr) ==> A_ELEM(g_arr, g_idx) == g_val)
;
void h_cfun_array_trim(void) { Janet *argv = mk_args(); cfun_array_trim(g_argc, argv); REACH("array/trim returns");
  if (g_oldcount > 0 && g_oldcount < g_oldcap) REACH("array/trim returns after shrinking"); }

/* (array/fill arr &opt value): every element becomes value (default nil), length unchanged */
static Janet cfun_array_fill_c(int32_t argc, Janet *argv)
CF_PRE __CPROVER_assigns(g_arr->capacity > 0: __CPROVER_object_whole(g_arr->data)) RET_ARG0
__CPROVER_ensures(WF_ARRAY(g_arr) && argc <= 2 && g_arr->count == g_oldcount && g_arr->capacity == g_oldcap)
__CPROVER_ensures(GHOST_IN(g_arr) ==> A_ELEM(g_arr, g_idx) == (argc == 2 ? argv[1].u64 : NIL_BITS))
;
void h_cfun_array_fill(void) { Janet *argv = mk_args(); SEQ_CHECK_NIL(); cfun_array_fill(g_argc, argv); REACH("array/fill returns");
  if (g_oldcount > 0) REACH("array/fill returns for a non-empty array"); }
