/* C10/C09: unmarshal_one_def (marsh.c), the arm that builds a NEW function definition (the LB_FUNCDEF_REF arm is unit
 * marsh.ref.def; the overflow-freedom of the size arithmetic is unit marsh.def.sizes). This unit states what the object looks
 * like: every vector of the definition is allocated for exactly the count that is published next to it, a count is published
 * only when its vector is completely filled (the collector walks constants / defs / symbolmap up to their counts and may see
 * the definition at any time: it is numbered before its contents are read), nested values and definitions are read one level
 * deeper, and janet_verify sees the finished definition before it is handed out.
 * The REAL unmarshal_one_def is the entry; readint / readnat, the nested unmarshal_one and unmarshal_one_def,
 * janet_unmarshal_u32s, janet_gcalloc, malloc, calloc, janet_verify and janet_v_grow are recording contracts. */
uint8_t nd_u8(void);
static uint8_t md_lead(void) { uint8_t b = nd_u8(); __CPROVER_assume(b != LB_FUNCDEF_REF); return b; }
#define MA_LEAD md_lead()
#include "marsh_arms.h"
static const uint8_t *unmarshal_one_def__entry(UnmarshalState *st, const uint8_t *data, JanetFuncDef **out, int flags);
/* ---- the vector of definitions numbered so far ---- */
struct md_vec { int32_t cap, cnt; JanetFuncDef *items[8]; };
struct md_vec md_v1, md_v2; int32_t md_cnt0; JanetFuncDef md_known[4];
void *md_vgrow_stub(void *v, int32_t increment, int32_t itemsize) {
  __CPROVER_assert(increment == 1 && itemsize == (int32_t) sizeof(JanetFuncDef *), "C10 funcdef vector: grown by one element of the element type");
  __CPROVER_assert(v == (void *) 0 || v == (void *) md_v1.items, "C10 funcdef vector: the vector that is grown is the state's own vector");
  md_v2.cap = 8; md_v2.cnt = v ? md_v1.cnt : 0;
  if (v) { md_v2.items[0] = md_v1.items[0]; md_v2.items[1] = md_v1.items[1]; md_v2.items[2] = md_v1.items[2]; md_v2.items[3] = md_v1.items[3]; }
  return md_v2.items;
}
/* ---- integer readers: ghost copies of the first ten integers, in call order ---- */
size_t md_cur; int md_cur_ok = 1; int md_ints; int32_t md_v[10]; size_t md_rem[10];   /* md_rem[i]: input bytes left after the i-th header integer */
static int32_t md_int(const uint8_t **atdata, int nat) {
  int32_t v = nd_i32(); if (nat) __CPROVER_assume(v >= 0);
  size_t at = (size_t)(*atdata - ma_in), k = nd_size(); __CPROVER_assume(at < ma_n && k >= 1 && k <= 5 && k <= ma_n - at);
  md_cur_ok = md_cur_ok && (md_ints == 0 ? at == 0 : at == md_cur);
  *atdata = ma_in + at + k; if (md_ints < 10) { md_v[md_ints] = v; md_rem[md_ints] = ma_n - (at + k); } md_cur = at + k; md_ints++; return v;
}
int32_t md_readint_stub(UnmarshalState *st, const uint8_t **atdata) { return md_int(atdata, 0); }
int32_t md_readnat_stub(UnmarshalState *st, const uint8_t **atdata) { return md_int(atdata, 1); }
/* ---- allocation ---- */
JanetFuncDef *md_def; int md_gc_calls;
void *md_gcalloc_stub(enum JanetMemoryType type, size_t size) {
  __CPROVER_assert(type == JANET_MEMORY_FUNCDEF && size == sizeof(JanetFuncDef), "C10 funcdef: one collector-owned definition object");
  md_gc_calls++; md_def = __CPROVER_allocate(size, 0); return md_def;
}
int md_allocs, md_post_allocs; size_t md_total;
int md_u32_calls;
static void *md_alloc(size_t size, int zero) {
  md_allocs++;
#ifdef MD_DOS
  /* the header is complete before the first vector is requested: R0 = input left when the last count had been read */
  int32_t dflags = md_v[0];
  int H = 7 + ((dflags & JANET_FUNCDEF_FLAG_HASENVS) ? 1 : 0) + ((dflags & JANET_FUNCDEF_FLAG_HASDEFS) ? 1 : 0) + ((dflags & JANET_FUNCDEF_FLAG_HASSYMBOLMAP) ? 1 : 0);
  __CPROVER_assert(md_ints >= H, "C10 funcdef (DOS): no vector is requested before all counts are read");
  size_t R0 = md_rem[H - 1];
  /* after the bytecode words are in: [environments] [defs] [sourcemap] [closure bitset] - the bitset is the last one */
  if (md_u32_calls >= 1) md_post_allocs++;
  int bitset_no = 1 + ((dflags & JANET_FUNCDEF_FLAG_HASENVS) ? 1 : 0) + ((dflags & JANET_FUNCDEF_FLAG_HASDEFS) ? 1 : 0) + ((dflags & JANET_FUNCDEF_FLAG_HASSOURCEMAP) ? 1 : 0);
  if ((dflags & JANET_FUNCDEF_FLAG_HASCLOBITSET) && md_u32_calls >= 1 && md_post_allocs == bitset_no) {
    __CPROVER_assert(size <= sizeof(uint32_t) * ((size_t) 1 << 26), "C10 funcdef (DOS): the closure bitset (sized by the 31-bit slot count, not by a vector count) is at most 2^26 words");
  } else {
    md_total += size;
    __CPROVER_assert(md_total <= 24 * R0, "C10 funcdef (DOS): the vectors requested on behalf of the untrusted counts (constants, symbolmap, bytecode, environments, defs, sourcemap) together take at most 24 bytes per byte of input that was left when the counts had been read - a failed allocation is not a catchable error, it exits the process");
  }
#endif
  return __CPROVER_allocate(size, zero);
}
void *md_malloc_stub(size_t size) { return md_alloc(size, 0); }
void *md_calloc_stub(size_t n, size_t size) { __CPROVER_assert(n == 1, "calloc(1, size)"); return md_alloc(size, 1); }
/* ---- nested readers ---- */
UnmarshalState *md_st; int md_flags0, md_flags_ok = 1, md_registered_ok = 1, md_gcsafe_ok = 1, md_slot_ok = 1;
int32_t md_consts_filled, md_defs_filled, md_syms_filled; int md_rec_calls, md_defrec_calls;
uint8_t *md_strobj; JanetFuncDef md_sub;
static void md_nested(UnmarshalState *st, const uint8_t *data, int flags) {
  size_t at = (size_t)(data - ma_in);
  md_cur_ok = md_cur_ok && at == md_cur && st == md_st;
  __CPROVER_assume(at < ma_n);
  md_flags_ok = md_flags_ok && flags == md_flags0 + 1;
  md_registered_ok = md_registered_ok && st->lookup_defs != 0 && janet_v_count(st->lookup_defs) == md_cnt0 + 1 && st->lookup_defs[md_cnt0] == md_def;
  /* what the collector may walk right now: published counts never exceed what is already in place */
  md_gcsafe_ok = md_gcsafe_ok && md_def->constants_length <= md_consts_filled && md_def->defs_length <= md_defs_filled && (int64_t) md_def->symbolmap_length <= md_syms_filled
                 && (md_def->constants_length == 0 || md_def->constants != 0) && (md_def->defs_length == 0 || md_def->defs != 0) && (md_def->symbolmap_length == 0 || md_def->symbolmap != 0);
  size_t k = nd_size(); __CPROVER_assume(k >= 1 && k <= ma_n - at);
  md_cur = at + k;
}
const uint8_t *md_rec_stub(UnmarshalState *st, const uint8_t *data, Janet *out, int flags) {
  md_nested(st, data, flags);
  Janet v; v.type = (JanetType)(nd_int() & 15); v.as.u64 = nd_u64();
  if (v.type == JANET_STRING || v.type == JANET_SYMBOL) v.as.pointer = md_strobj + sizeof(JanetStringHead);
  if (md_def->constants != 0 && md_def->constants_length == 0 && md_def->symbolmap == 0 && md_def->bytecode == 0) {
    /* the constants are being filled: slot i by the i-th read */
    md_slot_ok = md_slot_ok && out == md_def->constants + md_consts_filled; md_consts_filled++;
  } else if (md_def->symbolmap != 0 && md_def->bytecode == 0) {
    md_syms_filled++;       /* (the symbol is stored by the caller right after this read) */
  }
  *out = v; md_rec_calls++;
  return ma_in + md_cur;
}
const uint8_t *md_defrec_stub(UnmarshalState *st, const uint8_t *data, JanetFuncDef **out, int flags) {
  md_nested(st, data, flags);
  md_slot_ok = md_slot_ok && md_def->defs != 0 && out == md_def->defs + md_defs_filled; md_defs_filled++;
  *out = &md_sub; md_defrec_calls++;
  return ma_in + md_cur;
}
uint32_t *md_u32_into[2]; int32_t md_u32_n[2];
const uint8_t *md_u32s_stub(UnmarshalState *st, const uint8_t *data, uint32_t *into, int32_t n) {
  size_t at = (size_t)(data - ma_in);
  md_cur_ok = md_cur_ok && at == md_cur;
  __CPROVER_assert(n >= 0 && (n == 0 || __CPROVER_w_ok(into, sizeof(uint32_t) * (size_t) n)), "C10 funcdef: the word reader gets a vector with room for the words it is asked to read");
  __CPROVER_assume((size_t) n * 4 <= ma_n - at);             /* raises at the end of the input */
  if (md_u32_calls < 2) { md_u32_into[md_u32_calls] = into; md_u32_n[md_u32_calls] = n; }
  md_u32_calls++; md_cur = at + (size_t) n * 4; return ma_in + md_cur;
}
int md_verify_calls, md_verify_self, md_verify_result; int64_t md_vf[5];   /* the counts janet_verify saw */
int md_verify_stub(JanetFuncDef *def) {
  md_verify_calls++; md_verify_self = (def == md_def);
  md_vf[0] = def->constants_length; md_vf[1] = def->bytecode_length; md_vf[2] = def->environments_length; md_vf[3] = def->defs_length; md_vf[4] = def->symbolmap_length;
  md_verify_result = nd_int(); return md_verify_result;
}
#define MD_SIZE(p) __CPROVER_OBJECT_SIZE(p)
void h_def_new(void) {
  UnmarshalState st; JanetFuncDef *out = 0; ma_setup(&st); int flags = nd_int(); md_st = &st; md_flags0 = flags;
  md_cnt0 = nd_i32(); __CPROVER_assume(md_cnt0 >= 0 && md_cnt0 <= 3);
  md_v1.cap = 4; md_v1.cnt = md_cnt0; md_v1.items[0] = &md_known[0]; md_v1.items[1] = &md_known[1]; md_v1.items[2] = &md_known[2]; md_v1.items[3] = &md_known[3];
  if (md_cnt0 == 0 && nd_int()) st.lookup_defs = 0; else st.lookup_defs = md_v1.items;
  md_strobj = __CPROVER_allocate(sizeof(JanetStringHead) + 4, 0);     /* (malloc itself is replaced in this unit) */
  const uint8_t *ret = unmarshal_one_def__entry(&st, MA_CUR, &out, flags);
  MA_DEPTH_OK(flags);
  int32_t dflags = md_v[0]; int idx = 7;
  int32_t CL = md_v[5], BL = md_v[6];
  int32_t EL = (dflags & JANET_FUNCDEF_FLAG_HASENVS) ? md_v[idx++] : 0;
  int32_t DL = (dflags & JANET_FUNCDEF_FLAG_HASDEFS) ? md_v[idx++] : 0;
  int32_t SL = (dflags & JANET_FUNCDEF_FLAG_HASSYMBOLMAP) ? md_v[idx++] : 0;
  __CPROVER_assert(ma_n > 0 && md_ints >= idx, "C10 funcdef: the header integers are read (nothing from an exhausted input)");
  __CPROVER_assert(md_gc_calls == 1 && out == md_def, "C10 funcdef: the result is the one new definition object");
  __CPROVER_assert(st.lookup_defs != 0 && janet_v_count(st.lookup_defs) == md_cnt0 + 1 && st.lookup_defs[md_cnt0] == md_def, "C09 funcdef: the definition gets the next definition number, exactly once");
  { int32_t j = nd_i32(); if (j >= 0 && j < md_cnt0) __CPROVER_assert(st.lookup_defs[j] == &md_known[j], "C09 funcdef: earlier definition numbers keep their objects"); }
  __CPROVER_assert(md_registered_ok, "C09 funcdef: it is numbered BEFORE any nested value or definition is read");
  __CPROVER_assert(md_gcsafe_ok, "C10/C01 funcdef: whenever a nested value is read, every published count (constants, defs, symbolmap) is at most the number of elements already in place in an allocated vector - the collector can walk the half-built definition");
  __CPROVER_assert(md_cur_ok && ret == ma_in + md_cur, "C10 funcdef: all parts are read one after the other; the cursor returned is the one the last reader left");
  __CPROVER_assert(md_flags_ok, "C10/C19 funcdef: nested values and definitions are read one nesting level deeper (flags + 1)");
  JanetFuncDef *d = md_def;
  __CPROVER_assert(d->flags == dflags && d->slotcount == md_v[1] && d->arity == md_v[2] && d->min_arity == md_v[3] && d->max_arity == md_v[4], "C09 funcdef: flags, slotcount, arity, min_arity, max_arity read back in the order marshal wrote them");
  __CPROVER_assert(d->constants_length == CL && (CL == 0 ? d->constants == 0 : (MD_SIZE(d->constants) == sizeof(Janet) * (size_t) CL && md_consts_filled == CL)) && md_slot_ok, "C10 funcdef: constants vector of exactly constants_length slots, slot i filled by the i-th read");
  __CPROVER_assert(d->bytecode_length == BL && MD_SIZE(d->bytecode) == sizeof(uint32_t) * (size_t) BL && md_u32_calls >= 1 && md_u32_into[0] == d->bytecode && md_u32_n[0] == BL, "C10 funcdef: bytecode vector of exactly bytecode_length words, filled by the word reader");
  __CPROVER_assert(d->environments_length == EL && ((dflags & JANET_FUNCDEF_FLAG_HASENVS) ? MD_SIZE(d->environments) == sizeof(int32_t) * (size_t) EL : d->environments == 0), "C10 funcdef: environments vector of exactly environments_length entries (none without the flag)");
  __CPROVER_assert(d->defs_length == DL && md_defrec_calls == DL && ((dflags & JANET_FUNCDEF_FLAG_HASDEFS) ? MD_SIZE(d->defs) == sizeof(JanetFuncDef *) * (size_t) DL : d->defs == 0), "C10 funcdef: defs vector of exactly defs_length entries, entry i filled by the i-th nested definition (none without the flag)");
  __CPROVER_assert((int64_t) d->symbolmap_length == SL && ((dflags & JANET_FUNCDEF_FLAG_HASSYMBOLMAP) ? MD_SIZE(d->symbolmap) == sizeof(JanetSymbolMap) * (size_t) SL : d->symbolmap == 0), "C10 funcdef: symbolmap vector of exactly symbolmap_length entries (none without the flag)");
  __CPROVER_assert((dflags & JANET_FUNCDEF_FLAG_HASSOURCEMAP) ? MD_SIZE(d->sourcemap) == sizeof(JanetSourceMapping) * (size_t) BL : d->sourcemap == 0, "C10 funcdef: sourcemap vector of exactly bytecode_length entries (none without the flag)");
  if (dflags & JANET_FUNCDEF_FLAG_HASCLOBITSET) {
    size_t words = ((size_t)(uint32_t) d->slotcount + 31) >> 5;
    __CPROVER_assert(MD_SIZE(d->closure_bitset) == sizeof(uint32_t) * words && md_u32_calls == 2 && md_u32_into[1] == d->closure_bitset && (size_t) md_u32_n[1] == words, "C10 funcdef: closure bitset of exactly ceil(slotcount / 32) words, filled by the word reader");
#ifndef MD_DOS
    REACH("definition with closure bitset");
#endif
  } else __CPROVER_assert(d->closure_bitset == 0 && md_u32_calls == 1, "C10 funcdef: no closure bitset without the flag");
  __CPROVER_assert((dflags & JANET_FUNCDEF_FLAG_HASNAME) ? d->name == (const uint8_t *)(md_strobj + sizeof(JanetStringHead)) : d->name == 0, "C10 funcdef: the name is the string that was read (must be a string), none without the flag");
  __CPROVER_assert((dflags & JANET_FUNCDEF_FLAG_HASSOURCE) ? d->source == (const uint8_t *)(md_strobj + sizeof(JanetStringHead)) : d->source == 0, "C10 funcdef: the source is the string that was read (must be a string), none without the flag");
  __CPROVER_assert(md_verify_calls == 1 && md_verify_self && md_verify_result == 0 && md_vf[0] == CL && md_vf[1] == BL && md_vf[2] == EL && md_vf[3] == DL && md_vf[4] == SL,
                   "C10 funcdef: handed out only after janet_verify has accepted it - the finished definition with all its counts published");
#ifdef MD_DOS
  if (CL > 0) REACH("definition with constants");
#else
  if (CL > 0 && DL > 0) REACH("definition with constants and nested definitions");
  if (SL > 0) REACH("definition with a symbol map");
  if (EL > 0) REACH("definition with environments");
  if ((dflags & JANET_FUNCDEF_FLAG_HASSOURCEMAP) && BL > 0) REACH("definition with a source map");
#endif
  REACH("new definition");
}
