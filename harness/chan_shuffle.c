/* C06 / C10: ev/rselect shuffles its clause arguments in place (fisher_yates_args, ev.c) before it behaves like ev/select:
 * for EVERY random word the generator can return, every element read or written is one of the argc arguments (the block has
 * exactly argc values: anything else is a pointer-check failure), and the result is a permutation of the arguments - no clause
 * is lost, none doubled (ghost element: it occurs exactly once afterwards). */
#include "prelude.h"
#ifndef SH_MAX
#define SH_MAX 4
#endif
uint32_t sh_rng_stub(JanetRNG *rng) { return nd_u32(); }
void h_shuffle(void) {
  int32_t argc = nd_i32(); __CPROVER_assume(argc >= 0 && argc <= SH_MAX);
  Janet *argv = malloc(sizeof(Janet) * (size_t) argc);
  __CPROVER_assume(argv != (Janet *)0 || argc == 0);
  for (int i = 0; i < SH_MAX; i++) if (i < argc) { argv[i].type = JANET_NUMBER; argv[i].as.u64 = (uint64_t) i; }
  int32_t g = nd_i32(); __CPROVER_assume(argc == 0 || (g >= 0 && g < argc));
  fisher_yates_args(argc, argv);
  int seen = 0;
  for (int i = 0; i < SH_MAX; i++) if (i < argc) {
    __CPROVER_assert(argv[i].type == JANET_NUMBER && argv[i].as.u64 < (uint64_t) argc, "rselect shuffle: every slot holds one of the clauses");
    if (argv[i].as.u64 == (uint64_t) g) seen++;
  }
  __CPROVER_assert(argc == 0 || seen == 1, "rselect shuffle: every clause occurs exactly once afterwards (a permutation)");
  if (argc >= 3) REACH("shuffle of three or more clauses");
  REACH("shuffle returns");
}
