/* C18 thread clause (sequential): a thread started by ev/thread / ev/spawn-thread starts with the spawning
 * thread's current sandbox flags, and the thread body installs them before any user code runs. */
#include "prelude.h"
uint32_t g_flags;
void threaded_call_stub(JanetThreadedSubroutine fp, JanetEVGenericMessage arguments, JanetThreadedCallback cb) {
  __CPROVER_assert((uint32_t) arguments.argi == janet_vm.sandbox_flags, "C18 thread start (ev/thread :n, ev/spawn-thread): the new thread receives the caller's current sandbox flags");
  __CPROVER_assert(fp == janet_go_thread_subr, "C18 thread start: body is janet_go_thread_subr");
  REACH("non-waiting spawn site reached");
}
void threaded_await_stub(JanetThreadedSubroutine fp, int tag, int argi, void *argp) {
  __CPROVER_assert((uint32_t) argi == janet_vm.sandbox_flags, "C18 thread start (ev/thread, waiting): the new thread receives the caller's current sandbox flags");
  __CPROVER_assert(fp == janet_go_thread_subr, "C18 thread start: body is janet_go_thread_subr");
  REACH("waiting spawn site reached");
  __CPROVER_assume(0);
}
void h_thread_spawn(void) {
  int32_t argc = nd_i32(); Janet argv[6];
  janet_vm.sandbox_flags = nd_u32();
  JanetFiber root; janet_vm.root_fiber = &root;
  cfun_ev_thread(argc, argv);
}
/* thread body: every entry into user code (unmarshal of the payload, running the fiber) sees the flags passed in */
Janet unmarshal_stub(const uint8_t *bytes, size_t len, int flags, JanetTable *reg, const uint8_t **next) {
  __CPROVER_assert(janet_vm.sandbox_flags == g_flags, "C18 thread body: sandbox flags installed before the payload is unmarshalled");
  REACH("thread body reaches unmarshal");
  Janet x; x.u64 = nd_u64(); return x;
}
JanetSignal continue_stub(JanetFiber *fiber, Janet in, Janet *out) {
  __CPROVER_assert(janet_vm.sandbox_flags == g_flags, "C18 thread body: sandbox flags installed before user code runs");
  return (JanetSignal) nd_int();
}
int init_stub(void) { janet_vm.sandbox_flags = 0; return 0; }
void h_thread_body(void) {
  JanetEVGenericMessage args; JanetBuffer buf; uint8_t data[8];
  buf.data = data; buf.count = 8; args.argp = &buf; args.tag = nd_int(); args.argi = nd_int();
  g_flags = (uint32_t) args.argi;
  janet_go_thread_subr(args);
}
