/* C10: back-references in an image (value / funcenv / funcdef references) are range-checked against the number of objects
 * numbered so far - for ANY index bytes. The lookup vectors are real janet_v vectors (capacity 4) holding `count` known
 * objects followed by poison; the post-condition is that the object delivered is one of the first `count` entries. */
#include "prelude.h"
JanetFuncEnv g_envs[4], g_poison_env; JanetFuncDef g_defs[4], g_poison_def;
struct { int32_t cap, cnt; void *items[4]; } g_vec;
uint8_t g_in[8];
static void setup_vec(UnmarshalState *st, void **known, void *poison) {
  int32_t n = nd_i32(); __CPROVER_assume(n >= 0 && n <= 3);
  g_vec.cap = 4; g_vec.cnt = n;
  for (int k = 0; k < 4; k++) g_vec.items[k] = (k < n) ? known[k] : poison;
  for (int k = 1; k < 8; k++) g_in[k] = nd_u8();
  st->start = g_in; st->end = g_in + 8;
}
void h_env_ref(void) {
  UnmarshalState st; void *known[4] = {&g_envs[0], &g_envs[1], &g_envs[2], &g_envs[3]};
  setup_vec(&st, known, &g_poison_env); st.lookup_envs = (JanetFuncEnv **) g_vec.items; g_in[0] = LB_FUNCENV_REF;
  JanetFuncEnv *out = 0;
  unmarshal_one_env(&st, g_in, &out, nd_int() & 0xFF);
  __CPROVER_assert(g_vec.cnt > 0 && ((out == &g_envs[0]) || (g_vec.cnt > 1 && out == &g_envs[1]) || (g_vec.cnt > 2 && out == &g_envs[2])), "C10 funcenv reference: the index is inside the environments numbered so far");
  REACH("env reference accepted");
}
void h_def_ref(void) {
  UnmarshalState st; void *known[4] = {&g_defs[0], &g_defs[1], &g_defs[2], &g_defs[3]};
  setup_vec(&st, known, &g_poison_def); st.lookup_defs = (JanetFuncDef **) g_vec.items; g_in[0] = LB_FUNCDEF_REF;
  JanetFuncDef *out = 0;
  unmarshal_one_def(&st, g_in, &out, nd_int() & 0xFF);
  __CPROVER_assert(g_vec.cnt > 0 && ((out == &g_defs[0]) || (g_vec.cnt > 1 && out == &g_defs[1]) || (g_vec.cnt > 2 && out == &g_defs[2])), "C10 funcdef reference: the index is inside the definitions numbered so far");
  REACH("def reference accepted");
}
/* value references: a vector of Janet */
struct { int32_t cap, cnt; Janet items[4]; } g_vvec;
void h_value_ref(void) {
  UnmarshalState st; int32_t n = nd_i32(); __CPROVER_assume(n >= 0 && n <= 3);
  g_vvec.cap = 4; g_vvec.cnt = n;
  for (int k = 0; k < 4; k++) g_vvec.items[k] = janet_wrap_integer(k < n ? 100 + k : 666);
  for (int k = 1; k < 8; k++) g_in[k] = nd_u8();
  st.start = g_in; st.end = g_in + 8; st.lookup = g_vvec.items; g_in[0] = LB_REFERENCE;
  Janet out = janet_wrap_nil();
  unmarshal_one(&st, g_in, &out, nd_int() & 0xFF);
  __CPROVER_assert(janet_checktype(out, JANET_NUMBER) && janet_unwrap_integer(out) >= 100 && janet_unwrap_integer(out) < 100 + g_vvec.cnt, "C10 value reference: the index is inside the values numbered so far");
  REACH("value reference accepted");
}
