/* NATIVE REPRODUCER (not a CBMC harness; not included by any unit) for the finding of unit pp.escape.alias.reserve.anycount:
 * janet_escape_buffer_b (pp.c) reserves `bx->count + 5 * bx->count + 3` bytes (int32) before printing a buffer into itself; for
 * count >= 357913941 the expression overflows, janet_buffer_ensure gets a negative capacity and reserves nothing, the first push
 * that does not fit reallocates the storage and janet_escape_string_impl goes on reading the source through the stale pointer.
 *
 *   gcc -O1 -I/repo/src/include -I/repo/_build pp_repro_self_buffer.c /repo/_build/libjanet.a -lm -ldl -lpthread -lrt -o repro && ./repro
 *
 * realloc is interposed by a version that always moves the block and fills the old one with 0xDD (it is leaked instead of freed so
 * that the stale reads are visible instead of crashing).  Expected: the text appended is @"\x01\x01\x01...  Observed: from some unit on \xDD\xDD\xDD...
 * With the stock allocator the same stale reads happen whenever realloc cannot grow the 358 MB block in place (SIGSEGV once the
 * old mapping is gone).  Janet level: (def b (buffer/new-filled 400000000 1)) (buffer/format b "%j" b) */
#include <janet.h>
#include <stdio.h>
#include <stdlib.h>
#include <string.h>
#include <malloc.h>
void *realloc(void *p, size_t n) {
    if (!p) return malloc(n);
    size_t old = malloc_usable_size(p);
    void *q = malloc(n);
    if (!q) return NULL;
    memcpy(q, p, old < n ? old : n);
    memset(p, 0xDD, old);            /* poison, and leak on purpose */
    return q;
}
int main(void) {
    janet_init();
    int32_t n = 357913941;           /* smallest count whose reservation overflows: 6 * n + 3 == INT32_MAX + 2 */
    JanetBuffer *b = janet_buffer(n);
    janet_buffer_setcount(b, n);
    memset(b->data, 1, (size_t) n);     /* every byte needs a four-character escape: the output outgrows the first reallocation */
    janet_formatb(b, "%j", janet_wrap_buffer(b));
    /* the literal must be @" followed by n times \x01; find the first unit that is something else */
    const uint8_t *lit = b->data + n + 2;
    int64_t firstbad = -1;
    for (int64_t i = 0; i < n; i++) if (memcmp(lit + 4 * i, "\\x01", 4) != 0) { firstbad = i; break; }
    printf("count %d -> %d\nappended text starts: %.18s\n", n, b->count, (const char *) b->data + n);
    if (firstbad >= 0) printf("unit %lld of the literal is %.4s instead of \\x01\n", (long long) firstbad, (const char *) lit + 4 * firstbad);
    int bad = firstbad >= 0;
    printf(bad ? "DEFECT: the literal was produced from freed (poisoned) storage\n" : "ok: literal printed from live storage\n");
    janet_deinit();
    return bad;
}
