/* C20 (counter discipline only): the pending-work counter janet_vm.listener_count and the termination test that reads it.
 *   janet_ev_inc_refcount  : +1 exactly, nothing else of the VM written
 *   janet_ev_dec_refcount  : -1 exactly, nothing else of the VM written
 *   janet_loop_done        : true  <=>  run queue empty  /\  no timer pending  /\  no listener/pending-work count held
 * The atomic primitives janet_atomic_inc/dec/load (capi.c: one GCC __atomic builtin each, for which dfcc has no model) are
 * given their sequential meaning in ev_atomic.h (assumed). dfcc: janet_vm is nondeterministic at entry, so the contracts hold for EVERY VM state. */
#include "prelude.h"
#include "ev_atomic.h"

JanetAtomicInt g_old_lc;

/* representation invariant of the counter: it is a count of outstanding operations, so it never sits at the type's limits
 * (the code does not guard the increment; 2^31 simultaneously pending operations are out of scope) */
void janet_ev_inc_refcount_c(void)
__CPROVER_requires(g_old_lc == janet_vm.listener_count && janet_vm.listener_count >= 0 && janet_vm.listener_count < INT32_MAX)
__CPROVER_assigns(janet_vm.listener_count)
__CPROVER_ensures(janet_vm.listener_count == g_old_lc + 1)
;

void janet_ev_dec_refcount_c(void)
__CPROVER_requires(g_old_lc == janet_vm.listener_count && janet_vm.listener_count >= 1)
__CPROVER_assigns(janet_vm.listener_count)
__CPROVER_ensures(janet_vm.listener_count == g_old_lc - 1)
;

int janet_loop_done_c(void)
__CPROVER_assigns()
__CPROVER_ensures((__CPROVER_return_value != 0) ==
                  (janet_vm.spawn.head == janet_vm.spawn.tail && janet_vm.tq_count == 0 && janet_vm.listener_count == 0))
/* in the property's words: the loop may stop only when no task is runnable, no timer is armed and no fiber waits on an
 * outstanding thread/subprocess/stream operation - and it must stop then */
__CPROVER_ensures(__CPROVER_return_value == 0 || __CPROVER_return_value == 1)
;

void h_inc(void) { janet_ev_inc_refcount(); REACH("inc_refcount returns"); }
void h_dec(void) { janet_ev_dec_refcount(); REACH("dec_refcount returns"); }
void h_loop_done(void) { int r = janet_loop_done(); REACH("loop_done returns"); }
