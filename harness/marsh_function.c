/* C10: function images (unmarshal_one, LB_FUNCTION arm, marsh.c). A function object carries one environment pointer per
 * environment its DEFINITION declares: the collector (janet_mark_function), closure creation and the upvalue instructions
 * index func->envs[] up to def->environments_length. The image states the count separately from the definition, so the
 * loader must make them agree: contract - on return the object was allocated for, and filled with, exactly
 * def->environments_length environments. Recording stubs for the sub-readers. */
#include "prelude.h"
#include <stdlib.h>
static JanetFuncDef mf_def; static int mf_env_calls, mf_def_calls; static size_t mf_alloc_size; static int32_t mf_len; static JanetFuncEnv mf_env;
static int32_t mf_lookup_raw[2 + 4 * 8];
int32_t mf_readnat_stub(UnmarshalState *st, const uint8_t **atdata) { int32_t v = nd_i32(); __CPROVER_assume(v >= 0); mf_len = v; (*atdata)++; return v; }
const uint8_t *mf_def_stub(UnmarshalState *st, const uint8_t *data, JanetFuncDef **out, int flags) { mf_def_calls++; *out = &mf_def; return data; }
const uint8_t *mf_env_stub(UnmarshalState *st, const uint8_t *data, JanetFuncEnv **out, int flags) { mf_env_calls++; *out = &mf_env; return data; }
void *mf_gcalloc_stub(enum JanetMemoryType type, size_t size) { mf_alloc_size = size; void *p = malloc(size); __CPROVER_assume(p != 0); return p; }
void h_unmarshal_function(void) {
  UnmarshalState st; uint8_t bytes[8]; Janet out;
  bytes[0] = LB_FUNCTION;
  mf_lookup_raw[0] = 8; mf_lookup_raw[1] = 0; st.lookup = (Janet *)(mf_lookup_raw + 2); st.lookup_defs = 0; st.lookup_envs = 0;
  st.start = bytes; st.end = bytes + 8; st.reg = (JanetTable *)0;
  mf_def.environments_length = nd_i32(); __CPROVER_assume(mf_def.environments_length >= 0);       /* postcondition of unmarshal_one_def */
  mf_env_calls = mf_def_calls = 0;
  unmarshal_one(&st, bytes, &out, nd_int() & 0xFF);
  JanetFunction *fn = (JanetFunction *) out.as.pointer;
  __CPROVER_assert(out.type == JANET_FUNCTION && fn->def == &mf_def && mf_def_calls == 1, "C10 function image: the result is a function with the definition that was read");
  __CPROVER_assert(mf_len == mf_def.environments_length, "C10 function image: the function has exactly as many environments as its definition declares");
  __CPROVER_assert(mf_env_calls == mf_def.environments_length, "C10 function image: every declared environment is read");
  __CPROVER_assert(mf_alloc_size >= sizeof(JanetFunction) + (size_t) mf_def.environments_length * sizeof(JanetFuncEnv *), "C10 function image: the object has room for every environment pointer the definition declares");
  REACH("unmarshal_one accepts a function image");
}
