/* C10: fiber image validation in unmarshal_one_fiber (marsh.c): for ANY header integers, no signed overflow in the
 * validation arithmetic, every frame written lies inside the allocated stack, and an accepted image has a well-formed
 * stack layout. Callee contracts (recording/havoc stubs): readint returns any int32, readnat any int32 >= 0 (proved in
 * unit marsh.readnat), unmarshal_one yields any value (a function value refers to a verified funcdef: slotcount in
 * [0, 2^24], bytecode_length >= 1 - the postcondition of janet_verify, unit bytecode.verify). */
#include "prelude.h"
#include <stdlib.h>
JanetFuncDef g_def; JanetFunction g_func; JanetFuncEnv g_env; uint32_t g_bc[4];
/* ghosts: the integers handed out, in call order (header: flags | frame stackstart stacktop maxstack; per frame: frameflags | prevframe pcdiff) */
int g_ni, g_nn; int32_t g_int[2], g_nat[6];
int32_t readint_stub(UnmarshalState *st, const uint8_t **atdata) { int32_t v = nd_i32(); if (g_ni < 2) g_int[g_ni] = v; g_ni++; return v; }
#ifdef MF_SMALL
#define MF_NATMAX 12      /* small stack geometry: keeps the frame reads of the resume-pc postcondition cheap */
#else
#define MF_NATMAX 0x7fffffff
#endif
int32_t readnat_stub(UnmarshalState *st, const uint8_t **atdata) { int32_t v = nd_i32(); __CPROVER_assume(v >= 0 && v <= MF_NATMAX); if (g_nn < 6) g_nat[g_nn] = v; g_nn++; return v; }
#ifdef MF_ORDER
/* C09: the reader consumes the tail of a fiber image in the order marshal_one_fiber writes it: environment table (when flagged),
 * pending child (when flagged), last value. The value stream is typed accordingly: a reader that asks for them in another order
 * asks for a fiber where the table is, and the other way round. */
static int mo_env_read, mo_child_read, mo_last_read;
void mo_asserttype_stub(Janet x, JanetType t, UnmarshalState *st) {
  if (t == JANET_TABLE) { __CPROVER_assert(!mo_child_read && !mo_last_read, "C09 fiber image: the environment is read before the child and the last value (the order marshal writes)"); mo_env_read++; }
  else if (t == JANET_FIBER) { __CPROVER_assert((!(g_int[0] & JANET_FIBER_FLAG_HASENV) || mo_env_read == 1) && !mo_last_read, "C09 fiber image: the pending child is read after the environment and before the last value (the order marshal writes)"); mo_child_read++; }
  if (!janet_checktype(x, t)) __CPROVER_assume(0);
}
#endif
const uint8_t *unmarshal_one_stub(UnmarshalState *st, const uint8_t *data, Janet *out, int flags) {
  Janet v; /* uninitialised local = arbitrary value (tagged-struct configuration) */
  /* a value tagged as function always refers to a real, verified function object */
  if (janet_checktype(v, JANET_FUNCTION)) v = janet_wrap_function(&g_func);
#ifdef MF_ORDER
  { static JanetTable mo_table; static JanetFiber mo_fiber;      /* values of heap types refer to objects */
    if (v.type == JANET_TABLE) v.as.pointer = &mo_table;
    if (v.type == JANET_FIBER) v.as.pointer = &mo_fiber; }
#endif
  *out = v; return data;
}
const uint8_t *unmarshal_one_env_stub(UnmarshalState *st, const uint8_t *data, JanetFuncEnv **out, int flags) { *out = &g_env; return data; }
void *gcalloc_stub(enum JanetMemoryType type, size_t size) { void *p = malloc(size); __CPROVER_assume(p != 0); return p; }
int32_t g_vec_raw[2 + 2 * 8];
void h_unmarshal_fiber(void) {
  UnmarshalState st; uint8_t bytes[4]; JanetFiber *out = 0;
  g_vec_raw[0] = 8; g_vec_raw[1] = 0; st.lookup = (Janet *)(g_vec_raw + 2);
  st.start = bytes; st.end = bytes + 4;
  g_func.def = &g_def; g_def.bytecode = g_bc;
  g_def.slotcount = nd_i32(); __CPROVER_assume(g_def.slotcount >= 0 && g_def.slotcount <= 0x1000000);
#ifdef MF_SMALL
  __CPROVER_assume(g_def.slotcount <= 3);
#endif
  g_def.bytecode_length = nd_i32(); __CPROVER_assume(g_def.bytecode_length >= 1 && g_def.bytecode_length <= 4);      /* harness bound: 4 instruction words, any contents */
  g_bc[0] = nd_u32(); g_bc[1] = nd_u32(); g_bc[2] = nd_u32(); g_bc[3] = nd_u32();   /* no loop: the unit unwinds loops only twice */
  g_ni = g_nn = 0;
  unmarshal_one_fiber(&st, bytes, &out, nd_int() & 0xFF);
  /* accepted image: layout invariants every later user (resume, gc, print) relies on */
  __CPROVER_assert(out != 0, "C10 fiber image: result set");
  __CPROVER_assert(out->frame >= 0 && (int64_t)out->frame + JANET_FRAME_SIZE <= out->stackstart, "C10 fiber image: frame + FRAME_SIZE <= stackstart (no overflow)");
  __CPROVER_assert(out->stackstart <= out->stacktop && out->stacktop <= out->maxstack, "C10 fiber image: stackstart <= stacktop <= maxstack");
  __CPROVER_assert(out->stacktop <= out->capacity && out->capacity > 0, "C10 fiber image: stacktop within the allocated capacity");
  /* resume-safe pc: when the fiber can still run, the interpreter stores the resume value in register A of the instruction
   * at the top frame's pc and steps to the next instruction (run_vm entry) - both must stay inside the frame / the bytecode.
   * Bytecode verification does not give this for an arbitrary pc (shape-0 instructions accept any operand bits).
   * Stated over the integers the image supplied (ghosts), so that no symbolic-offset read of the stack block is needed. */
#ifndef MF_NOPC
  if (g_nat[0] > 0) {                       /* frame > 0: there is a top frame; it is the first one read */
    int32_t fflags = g_int[0], pcd = g_nat[5];
    JanetFiberStatus fs = (JanetFiberStatus)((fflags & JANET_FIBER_STATUS_MASK) >> JANET_FIBER_STATUS_OFFSET);
    int finished = fs == JANET_STATUS_DEAD || fs == JANET_STATUS_ERROR || (fs >= JANET_STATUS_USER0 && fs <= JANET_STATUS_USER4);
    __CPROVER_assert(g_ni >= 2 && g_nn >= 6 && pcd < g_def.bytecode_length, "C10 fiber image: the top frame's pc lies inside its function's bytecode");
    uint32_t w = g_bc[pcd];
    int dropped = (fflags & JANET_FIBER_DID_LONGJUMP) && (w & 0xFF) == JOP_TAILCALL;
    if (!finished && !dropped) {
      __CPROVER_assert((fflags & JANET_FIBER_RESUME_NO_USEVAL) || (int32_t)((w >> 8) & 0xFF) < g_def.slotcount, "C10 fiber image: a fiber that can be resumed stores the resume value inside its frame (register A of the instruction at pc is below slotcount)");
      __CPROVER_assert((fflags & JANET_FIBER_RESUME_NO_SKIP) || pcd + 1 < g_def.bytecode_length, "C10 fiber image: a fiber that can be resumed continues inside its bytecode (pc is not the last instruction)");
      REACH("fiber image: resumable fiber with a function frame");
    }
  }
  /* the frame without a previous frame is the fiber's first frame: a return from it must leave the interpreter (ENTRANCE),
   * otherwise run_vm pops it and continues in a frame that does not exist (stated for the top frame via the ghosts) */
  if (g_nat[0] > 0 && g_nat[4] == 0) {
    __CPROVER_assert(g_int[1] & JANET_STACKFRAME_ENTRANCE, "C10 fiber image: the first frame of a fiber is an entrance frame (returning from it ends the fiber)");
    REACH("fiber image: single frame");
  }
#endif
#ifdef MF_ORDER
  __CPROVER_assert(mo_env_read == ((g_int[0] & JANET_FIBER_FLAG_HASENV) ? 1 : 0) && mo_child_read == ((g_int[0] & JANET_FIBER_FLAG_HASCHILD) ? 1 : 0), "C09 fiber image: environment and child are read exactly when the image flags them");
  __CPROVER_assert(((out->env != 0) == ((g_int[0] & JANET_FIBER_FLAG_HASENV) != 0)) && ((out->child != 0) == ((g_int[0] & JANET_FIBER_FLAG_HASCHILD) != 0)), "C09 fiber image: the fiber gets an environment / a child exactly when the image has one");
  if ((g_int[0] & JANET_FIBER_FLAG_HASENV) && (g_int[0] & JANET_FIBER_FLAG_HASCHILD)) REACH("fiber image with environment and child");
#endif
  REACH("unmarshal_one_fiber accepts an image");
}
