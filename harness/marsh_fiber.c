/* C10: fiber image validation in unmarshal_one_fiber (marsh.c): for ANY header integers, no signed overflow in the
 * validation arithmetic, every frame written lies inside the allocated stack, and an accepted image has a well-formed
 * stack layout. Callee contracts (recording/havoc stubs): readint returns any int32, readnat any int32 >= 0 (proved in
 * unit marsh.readnat), unmarshal_one yields any value (a function value refers to a verified funcdef: slotcount in
 * [0, 2^24], bytecode_length >= 1 - the postcondition of janet_verify, unit bytecode.verify). */
#include "prelude.h"
#include <stdlib.h>
JanetFuncDef g_def; JanetFunction g_func; JanetFuncEnv g_env; uint32_t g_bc[4];
int32_t readint_stub(UnmarshalState *st, const uint8_t **atdata) { return nd_i32(); }
int32_t readnat_stub(UnmarshalState *st, const uint8_t **atdata) { int32_t v = nd_i32(); __CPROVER_assume(v >= 0); return v; }
const uint8_t *unmarshal_one_stub(UnmarshalState *st, const uint8_t *data, Janet *out, int flags) {
  Janet v; /* uninitialised local = arbitrary value (tagged-struct configuration) */
  /* a value tagged as function always refers to a real, verified function object */
  if (janet_checktype(v, JANET_FUNCTION)) v = janet_wrap_function(&g_func);
  *out = v; return data;
}
const uint8_t *unmarshal_one_env_stub(UnmarshalState *st, const uint8_t *data, JanetFuncEnv **out, int flags) { *out = &g_env; return data; }
void *gcalloc_stub(enum JanetMemoryType type, size_t size) { void *p = malloc(size); __CPROVER_assume(p != 0); return p; }
int32_t g_vec_raw[2 + 2 * 8];
void h_unmarshal_fiber(void) {
  UnmarshalState st; uint8_t bytes[4]; JanetFiber *out = 0;
  g_vec_raw[0] = 8; g_vec_raw[1] = 0; st.lookup = (Janet *)(g_vec_raw + 2);
  st.start = bytes; st.end = bytes + 4;
  g_func.def = &g_def; g_def.bytecode = g_bc;
  g_def.slotcount = nd_i32(); __CPROVER_assume(g_def.slotcount >= 0 && g_def.slotcount <= 0x1000000);
  g_def.bytecode_length = nd_i32(); __CPROVER_assume(g_def.bytecode_length >= 1);
  unmarshal_one_fiber(&st, bytes, &out, nd_int() & 0xFF);
  /* accepted image: layout invariants every later user (resume, gc, print) relies on */
  __CPROVER_assert(out != 0, "C10 fiber image: result set");
  __CPROVER_assert(out->frame >= 0 && (int64_t)out->frame + JANET_FRAME_SIZE <= out->stackstart, "C10 fiber image: frame + FRAME_SIZE <= stackstart (no overflow)");
  __CPROVER_assert(out->stackstart <= out->stacktop && out->stacktop <= out->maxstack, "C10 fiber image: stackstart <= stacktop <= maxstack");
  __CPROVER_assert(out->stacktop <= out->capacity && out->capacity > 0, "C10 fiber image: stacktop within the allocated capacity");
  REACH("unmarshal_one_fiber accepts an image");
}
