/* C16 listener discipline + C20 counter pairing on the REAL janet_async_start_fiber / janet_async_end / janet_stream_close /
 * janet_stream_close_impl / janet_stream_gc of ev.c (plain mode, loop-free, every input field nondeterministic).
 *
 * Representation invariant used as precondition (derived from the only writers of the fields: janet_async_start_fiber,
 * janet_async_end, janet_stream_close, janet_stream_ext):
 *     WF(stream, g):  stream->read_fiber  == g  ==>  g->ev_callback != NULL && g->ev_stream == stream
 *                     stream->write_fiber == g  ==>  g->ev_callback != NULL && g->ev_stream == stream
 * Ghost state: g_roots (gcroot - gcunroot balance on the stream), g_free (frees of ev_state), recorded callback calls,
 * recorded close(2) calls. The pending-work counter is the real janet_vm.listener_count through the real
 * janet_ev_inc_refcount/janet_ev_dec_refcount (atomics: sequential model, ev_atomic.h).
 * Stubs (assumed contracts): janet_gcroot/janet_gcunroot record their argument and succeed; free records its argument;
 * close(2) records its argument and returns any value. */
#include "prelude.h"
#include "ev_atomic.h"

/* ---- recorders -------------------------------------------------------------------------------------------------- */
int g_seq;                                             /* global order of recorded actions */
int g_root_calls, g_unroot_calls; void *g_root_arg, *g_unroot_arg; int g_unroot_seq;
int g_free_calls; void *g_free_arg;
int g_close_calls, g_close_fd, g_close_seq;
#define NF 3
int g_cb_calls[NF]; JanetAsyncEvent g_cb_event[NF]; int g_cb_seq[NF];     /* per fiber: number of calls, last event */
int g_cb_init_ok;                                      /* snapshot taken inside the INIT callback */
int g_deinit_calls[NF], g_close_ev_calls[NF], g_other_ev_calls[NF];
JanetFiber g_f[NF]; JanetStream g_s[2];
void *g_expect_state;

void gcroot_stub(Janet root) {
  g_root_calls++; g_root_arg = janet_unwrap_abstract(root);
  __CPROVER_assert(janet_checktype(root, JANET_ABSTRACT), "C20 pairing: the stream is rooted as an abstract value");
}
int gcunroot_stub(Janet root) {
  g_unroot_calls++; g_unroot_arg = janet_unwrap_abstract(root); g_unroot_seq = ++g_seq;
  __CPROVER_assert(janet_checktype(root, JANET_ABSTRACT), "C20 pairing: the stream is unrooted as an abstract value");
  return 1;
}
void free_stub(void *p) { g_free_calls++; g_free_arg = p; }
int close_stub(int fd) { g_close_calls++; g_close_fd = fd; g_close_seq = ++g_seq; return nd_int(); }

static int fidx(JanetFiber *f) { return f == &g_f[0] ? 0 : f == &g_f[1] ? 1 : 2; }

/* passive callback: records only (start / end units) */
void rec_cb(JanetFiber *f, JanetAsyncEvent e) {
  int i = fidx(f);
  __CPROVER_assert(f == &g_f[i], "callback receives a fiber of the harness");
  g_cb_calls[i]++; g_cb_event[i] = e; g_cb_seq[i] = ++g_seq;
  if (e == JANET_ASYNC_EVENT_DEINIT) g_deinit_calls[i]++;
  else if (e == JANET_ASYNC_EVENT_CLOSE) g_close_ev_calls[i]++;
  else g_other_ev_calls[i]++;
  if (e == JANET_ASYNC_EVENT_INIT)
    g_cb_init_ok = (f->ev_state == g_expect_state) && (f->ev_callback == rec_cb) && g_root_calls == 1;
}
/* callback with the behaviour EVERY stream callback of ev.c/net.c has on CLOSE: cancel the fiber, then janet_async_end */
int g_cancel_calls[NF];
void closing_cb(JanetFiber *f, JanetAsyncEvent e) {
  int i = fidx(f);
  g_cb_calls[i]++; g_cb_event[i] = e; g_cb_seq[i] = ++g_seq;
  if (e == JANET_ASYNC_EVENT_DEINIT) g_deinit_calls[i]++;
  else if (e == JANET_ASYNC_EVENT_CLOSE) { g_close_ev_calls[i]++; g_cancel_calls[i]++; janet_async_end(f); }
  else g_other_ev_calls[i]++;
}

static JanetFiber *pick_fiber(void) { int k = nd_int(); return k == 0 ? (JanetFiber *)0 : k == 1 ? &g_f[0] : k == 2 ? &g_f[1] : &g_f[2]; }

#define WF1(sp, i) \
  (((sp)->read_fiber  != &g_f[i] || (g_f[i].ev_callback != 0 && g_f[i].ev_stream == (sp))) && \
   ((sp)->write_fiber != &g_f[i] || (g_f[i].ev_callback != 0 && g_f[i].ev_stream == (sp))))
#define WF(sp) (WF1(sp, 0) && WF1(sp, 1) && WF1(sp, 2))

static void havoc_world(JanetEVCallback cb) {
  janet_vm.listener_count = nd_i32();
  __CPROVER_assume(janet_vm.listener_count >= NF && janet_vm.listener_count < INT32_MAX);
  for (int i = 0; i < NF; i++) {
    g_f[i].flags = nd_i32();
    g_f[i].ev_callback = nd_int() ? cb : (JanetEVCallback)0;
    g_f[i].ev_stream = nd_int() ? &g_s[0] : &g_s[1];
    g_f[i].ev_state = nd_int() ? nd_ptr() : (void *)0;
    g_f[i].sched_id = nd_u32();
  }
  for (int k = 0; k < 2; k++) {
    g_s[k].handle = nd_int(); g_s[k].flags = nd_u32(); g_s[k].index = nd_u32();
    g_s[k].read_fiber = pick_fiber(); g_s[k].write_fiber = pick_fiber();
    g_s[k].methods = (void *)0;
  }
  __CPROVER_assume(WF(&g_s[0]) && WF(&g_s[1]));
}

/* ================================================================================================================== */
/* janet_async_start_fiber                                                                                            */
static void start_common(int require_free_slot) {
  havoc_world(rec_cb);
  JanetFiber *fiber = &g_f[0]; JanetStream *stream = &g_s[0]; JanetStream *other = &g_s[1];
  JanetAsyncMode mode = (JanetAsyncMode) nd_int();
  __CPROVER_assume(mode == JANET_ASYNC_LISTEN_READ || mode == JANET_ASYNC_LISTEN_WRITE || mode == JANET_ASYNC_LISTEN_BOTH);
  void *state = nd_ptr(); g_expect_state = state;
  /* caller-side discipline "one reader and one writer fiber per stream": the slot that is taken is free */
  if (require_free_slot) {
    __CPROVER_assume(!(mode & JANET_ASYNC_LISTEN_READ) || stream->read_fiber == 0);
    __CPROVER_assume(!(mode & JANET_ASYNC_LISTEN_WRITE) || stream->write_fiber == 0);
  }
  JanetEVCallback cb0 = fiber->ev_callback;
  JanetAtomicInt lc0 = janet_vm.listener_count;
  JanetFiber *r0 = stream->read_fiber, *w0 = stream->write_fiber, *or0 = other->read_fiber, *ow0 = other->write_fiber;
  JanetFiber f1 = g_f[1], f2 = g_f[2]; JanetHandle h0 = stream->handle; uint32_t fl0 = stream->flags;

  janet_async_start_fiber(fiber, stream, mode, rec_cb, state);

  if (require_free_slot) {
    __CPROVER_assert(cb0 == 0, "C16 listener: a fiber that already waits on an operation is refused (double async), it returns only for an idle fiber");
    __CPROVER_assert(janet_vm.listener_count == lc0 + 1, "C20 pairing: async start takes exactly one pending-work count");
    __CPROVER_assert(fiber->ev_callback == rec_cb && fiber->ev_callback != 0, "C20 pairing: the count is owned by a non-NULL ev_callback");
    __CPROVER_assert(fiber->ev_stream == stream && fiber->ev_state == state, "C16 listener: fiber records stream and state");
    __CPROVER_assert(stream->read_fiber == ((mode & JANET_ASYNC_LISTEN_READ) ? fiber : r0), "C16 listener: reader slot set iff read mode, else untouched");
    __CPROVER_assert(stream->write_fiber == ((mode & JANET_ASYNC_LISTEN_WRITE) ? fiber : w0), "C16 listener: writer slot set iff write mode, else untouched");
    __CPROVER_assert(other->read_fiber == or0 && other->write_fiber == ow0, "C16 listener: no other stream's registration is touched");
    __CPROVER_assert(stream->handle == h0 && stream->flags == fl0, "C16 listener: handle and flags untouched");
    __CPROVER_assert(g_root_calls == 1 && g_root_arg == stream && g_unroot_calls == 0, "C20 pairing: the stream is rooted exactly once");
    __CPROVER_assert(g_cb_calls[0] == 1 && g_cb_event[0] == JANET_ASYNC_EVENT_INIT && g_cb_init_ok, "C16 listener: the state machine is started exactly once (INIT) after registration, rooting and state are in place");
    __CPROVER_assert(g_cb_calls[1] == 0 && g_cb_calls[2] == 0 && g_free_calls == 0 && g_close_calls == 0, "C16 listener: no other fiber is called back, nothing freed or closed");
    __CPROVER_assert(g_f[1].ev_callback == f1.ev_callback && g_f[1].ev_stream == f1.ev_stream && g_f[1].ev_state == f1.ev_state &&
                     g_f[2].ev_callback == f2.ev_callback && g_f[2].ev_stream == f2.ev_stream && g_f[2].ev_state == f2.ev_state, "C16 listener: other fibers' wait state untouched");
    __CPROVER_assert(WF(stream) && WF(other), "C16 listener: registration invariant (registered fiber waits on exactly this stream) preserved");
  } else {
    /* C16: "none is silently dropped or left suspended forever because another fiber uses the same stream":
     * a fiber that was registered and is still waiting (callback set, not called back, not cancelled) must still be registered */
    for (int i = 1; i < NF; i++) {
      int was_reader = (r0 == &g_f[i]), was_writer = (w0 == &g_f[i]);
      int told = g_cb_calls[i] > 0;
      __CPROVER_assert(!was_reader || told || stream->read_fiber == &g_f[i], "C16 listener: a pending reader is not silently unregistered by another fiber's read on the same stream");
      __CPROVER_assert(!was_writer || told || stream->write_fiber == &g_f[i], "C16 listener: a pending writer is not silently unregistered by another fiber's write on the same stream");
    }
  }
}
void h_async_start(void) { start_common(1); REACH("async_start_fiber returns"); }
void h_async_start_busy(void) { start_common(0); REACH("async_start_fiber returns (busy stream allowed)"); }

/* ================================================================================================================== */
/* janet_async_end: -1 exactly when ev_callback != NULL, clears exactly this fiber's registration, idempotent          */
void h_async_end(void) {
  havoc_world(rec_cb);
  JanetFiber *fiber = &g_f[0];
  JanetEVCallback cb0 = fiber->ev_callback;
  JanetStream *stream = fiber->ev_stream;                 /* meaningful only when cb0 != NULL */
  JanetStream *other = (stream == &g_s[0]) ? &g_s[1] : &g_s[0];
  if (!cb0) fiber->ev_stream = (JanetStream *) nd_ptr();  /* an idle fiber's stream pointer is garbage: must not be used */
  JanetAtomicInt lc0 = janet_vm.listener_count;
  JanetStream s0 = g_s[0], s1 = g_s[1]; void *st0 = fiber->ev_state; int inflight = fiber->flags & JANET_FIBER_EV_FLAG_IN_FLIGHT;
  JanetFiber f1 = g_f[1], f2 = g_f[2];

  janet_async_end(fiber);

  if (!cb0) {
    __CPROVER_assert(janet_vm.listener_count == lc0, "C20 pairing: ending an idle fiber does not touch the pending-work counter");
    __CPROVER_assert(g_cb_calls[0] == 0 && g_unroot_calls == 0 && g_free_calls == 0, "C20 pairing: ending an idle fiber unroots, frees and calls nothing");
    __CPROVER_assert(g_s[0].read_fiber == s0.read_fiber && g_s[0].write_fiber == s0.write_fiber &&
                     g_s[1].read_fiber == s1.read_fiber && g_s[1].write_fiber == s1.write_fiber, "C16 listener: ending an idle fiber clears no registration");
    REACH("async_end returns (idle fiber)");
  } else {
    JanetStream *sb = (stream == &g_s[0]) ? &s0 : &s1;   /* before-image of the fiber's stream */
    JanetStream *ob = (stream == &g_s[0]) ? &s1 : &s0;
    __CPROVER_assert(fiber->ev_callback == 0, "C20 pairing: ev_callback cleared, the count cannot be released twice");
    __CPROVER_assert(janet_vm.listener_count == (inflight ? lc0 : lc0 - 1), "C20 pairing: async end releases exactly one pending-work count (unless the operation is still in flight in the kernel)");
    __CPROVER_assert(stream->read_fiber == (sb->read_fiber == fiber ? (JanetFiber *)0 : sb->read_fiber), "C16 listener: reader slot cleared iff it held this fiber");
    __CPROVER_assert(stream->write_fiber == (sb->write_fiber == fiber ? (JanetFiber *)0 : sb->write_fiber), "C16 listener: writer slot cleared iff it held this fiber");
    __CPROVER_assert(other->read_fiber == ob->read_fiber && other->write_fiber == ob->write_fiber, "C16 listener: the other stream's registrations untouched");
    __CPROVER_assert(g_s[0].read_fiber != fiber && g_s[0].write_fiber != fiber && g_s[1].read_fiber != fiber && g_s[1].write_fiber != fiber, "C16 listener: after detach the fiber is registered nowhere");
    __CPROVER_assert(g_cb_calls[0] == 1 && g_deinit_calls[0] == 1 && g_cb_calls[1] == 0 && g_cb_calls[2] == 0, "C16 listener: exactly one DEINIT to this fiber's state machine, none to others");
    __CPROVER_assert(g_unroot_calls == 1 && g_unroot_arg == stream && g_root_calls == 0 && g_cb_seq[0] < g_unroot_seq, "C20 pairing: the stream rooted at start is unrooted exactly once, after DEINIT");
    __CPROVER_assert(inflight ? (g_free_calls == 0 && fiber->ev_state == st0)
                              : (fiber->ev_state == 0 && g_free_calls == (st0 ? 1 : 0) && (!st0 || g_free_arg == st0)), "C20 resources: the operation state is freed exactly once and forgotten");
    __CPROVER_assert(stream->handle == sb->handle && stream->flags == sb->flags && g_close_calls == 0, "C16 listener: detach does not close the stream");
    __CPROVER_assert(g_f[1].ev_callback == f1.ev_callback && g_f[1].ev_stream == f1.ev_stream && g_f[2].ev_callback == f2.ev_callback && g_f[2].ev_stream == f2.ev_stream, "C16 listener: other fibers' wait state untouched");
    __CPROVER_assert(WF(&g_s[0]) && WF(&g_s[1]), "C16 listener: registration invariant preserved");
    REACH("async_end returns (waiting fiber)");
  }
  /* idempotence: a second end (janet_fiber_did_resume calls it on every resume) changes nothing */
  JanetAtomicInt lc1 = janet_vm.listener_count; int u1 = g_unroot_calls, fr1 = g_free_calls, c1 = g_cb_calls[0];
  JanetStream t0 = g_s[0], t1 = g_s[1];
  janet_async_end(fiber);
  __CPROVER_assert(janet_vm.listener_count == lc1 && g_unroot_calls == u1 && g_free_calls == fr1 && g_cb_calls[0] == c1, "C20 pairing: janet_async_end is idempotent (no second decrement, unroot, free or DEINIT)");
  __CPROVER_assert(g_s[0].read_fiber == t0.read_fiber && g_s[0].write_fiber == t0.write_fiber && g_s[1].read_fiber == t1.read_fiber && g_s[1].write_fiber == t1.write_fiber, "C16 listener: second end clears nothing");
  REACH("second async_end returns");
}

/* start ; end  ==  identity on counter, root balance and registrations (each increment owned by exactly one decrement) */
void h_async_pair(void) {
  havoc_world(rec_cb);
  JanetFiber *fiber = &g_f[0]; JanetStream *stream = &g_s[0];
  JanetAsyncMode mode = (JanetAsyncMode) nd_int();
  __CPROVER_assume(mode == JANET_ASYNC_LISTEN_READ || mode == JANET_ASYNC_LISTEN_WRITE || mode == JANET_ASYNC_LISTEN_BOTH);
  __CPROVER_assume(!(mode & JANET_ASYNC_LISTEN_READ) || stream->read_fiber == 0);
  __CPROVER_assume(!(mode & JANET_ASYNC_LISTEN_WRITE) || stream->write_fiber == 0);
  __CPROVER_assume(!(fiber->flags & JANET_FIBER_EV_FLAG_IN_FLIGHT));   /* POSIX: janet_async_in_flight is a no-op, the flag is never set */
  JanetAtomicInt lc0 = janet_vm.listener_count; JanetStream s0 = g_s[0];
  void *state = nd_ptr(); g_expect_state = state;
  janet_async_start_fiber(fiber, stream, mode, rec_cb, state);
  janet_async_end(fiber);
  __CPROVER_assert(janet_vm.listener_count == lc0, "C20 pairing: the count taken by async start is released by exactly one async end");
  __CPROVER_assert(g_root_calls == 1 && g_unroot_calls == 1 && g_root_arg == g_unroot_arg, "C20 pinned objects: gcroot/gcunroot of the stream are balanced");
  __CPROVER_assert(stream->read_fiber == s0.read_fiber && stream->write_fiber == s0.write_fiber, "C16 listener: registrations restored");
  __CPROVER_assert(g_free_calls == (state ? 1 : 0) && fiber->ev_state == 0 && fiber->ev_callback == 0, "C20 resources: operation state freed once, fiber idle again");
  REACH("start;end returns");
}

/* ================================================================================================================== */
/* janet_stream_close_impl / janet_stream_gc: close(2) at most once per handle                                        */
static void close_impl_common(int via_gc) {
  JanetStream *s = &g_s[0];
  s->handle = nd_int(); s->flags = nd_u32(); s->index = nd_u32(); s->read_fiber = 0; s->write_fiber = 0;
  JanetHandle h0 = s->handle; uint32_t fl0 = s->flags;
  int expect = (h0 != -1 && !(fl0 & JANET_STREAM_NOT_CLOSEABLE)) ? 1 : 0;
  if (via_gc) {
    int r = janet_stream_gc(s, sizeof(JanetStream));
    __CPROVER_assert(r == 0, "C20 resources: stream finaliser reports success");
  } else {
    janet_stream_close_impl(s);
  }
  __CPROVER_assert(g_close_calls == expect, "C20 resources: an open closeable handle is closed exactly once; a closed (-1) or borrowed handle is not closed");
  __CPROVER_assert(g_close_calls == 0 || g_close_fd == h0, "C20 resources: the descriptor closed is the stream's own");
  __CPROVER_assert(s->handle == -1, "C20 resources: handle is -1 afterwards");
  __CPROVER_assert(s->flags == (fl0 | JANET_STREAM_CLOSED), "C16 close: stream is marked closed, other flags kept");
  REACH("close_impl returns");
  janet_stream_close_impl(s);
  __CPROVER_assert(g_close_calls == expect && s->handle == -1 && s->flags == (fl0 | JANET_STREAM_CLOSED), "C20 resources: closing again is a no-op (no second close(2) on a possibly reused descriptor number)");
  if (via_gc) { (void) janet_stream_gc(s, sizeof(JanetStream)); __CPROVER_assert(g_close_calls == expect, "C20 resources: finalising a closed stream closes nothing"); }
  REACH("second close_impl returns");
}
void h_close_impl(void) { close_impl_common(0); }
void h_stream_gc(void) { close_impl_common(1); }

/* ================================================================================================================== */
/* janet_stream_close: wakes the pending reader and writer, then closes once                                           */
void h_stream_close(void) {
  havoc_world(closing_cb);
  JanetStream *s = &g_s[0];
  __CPROVER_assume(!(g_f[0].flags & JANET_FIBER_EV_FLAG_IN_FLIGHT) && !(g_f[1].flags & JANET_FIBER_EV_FLAG_IN_FLIGHT) && !(g_f[2].flags & JANET_FIBER_EV_FLAG_IN_FLIGHT));
  JanetFiber *r0 = s->read_fiber, *w0 = s->write_fiber; JanetHandle h0 = s->handle; uint32_t fl0 = s->flags;
  JanetAtomicInt lc0 = janet_vm.listener_count;
  int npending = (r0 != 0) + (w0 != 0 && w0 != r0);
  JanetStream o0 = g_s[1];
  int waits_other[NF];
  for (int i = 0; i < NF; i++) waits_other[i] = (r0 != &g_f[i] && w0 != &g_f[i]);
  JanetFiber fb[NF]; for (int i = 0; i < NF; i++) fb[i] = g_f[i];

  janet_stream_close(s);

  for (int i = 0; i < NF; i++) {
    if (!waits_other[i]) {
      __CPROVER_assert(g_close_ev_calls[i] == 1 && g_cancel_calls[i] == 1, "C16 close: every fiber pending on the stream is woken exactly once (CLOSE -> cancelled)");
      __CPROVER_assert(g_f[i].ev_callback == 0 && g_deinit_calls[i] == 1, "C16 close: the woken fiber is detached");
      __CPROVER_assert(g_cb_seq[i] < g_close_seq || g_close_calls == 0, "C16 close: pending fibers are notified before the descriptor is closed");
    } else {
      __CPROVER_assert(g_cb_calls[i] == 0 && g_f[i].ev_callback == fb[i].ev_callback && g_f[i].ev_stream == fb[i].ev_stream, "C16 close: fibers not waiting on this stream are left alone");
    }
  }
  __CPROVER_assert(s->read_fiber == 0 && s->write_fiber == 0, "C16 close: no registration survives the close");
  __CPROVER_assert(janet_vm.listener_count == lc0 - npending, "C20 pairing: one pending-work count released per woken fiber");
  __CPROVER_assert(g_unroot_calls == npending, "C20 pinned objects: one unroot per woken fiber");
  __CPROVER_assert(s->handle == -1 && (s->flags & JANET_STREAM_CLOSED), "C16 close: stream closed");
  __CPROVER_assert(g_close_calls == ((h0 != -1 && !(fl0 & JANET_STREAM_NOT_CLOSEABLE)) ? 1 : 0) && (g_close_calls == 0 || g_close_fd == h0), "C20 resources: descriptor closed exactly once");
  __CPROVER_assert(g_s[1].read_fiber == o0.read_fiber && g_s[1].write_fiber == o0.write_fiber && g_s[1].handle == o0.handle, "C16 close: the other stream is untouched");
  /* closing again: no registration is left (asserted above), so the second janet_stream_close reduces to janet_stream_close_impl,
   * whose idempotence is unit ev.stream.close_impl */
  REACH("stream_close returns");
}
