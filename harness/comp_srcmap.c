/* C02: "a raised error is attributed to the source line and column of the form that raised it".
 * The compiler keeps two parallel vectors, c->buffer (instructions) and c->mapbuffer (one source mapping per
 * instruction); janetc_pop_funcdef copies the same index range of both into the function definition. Invariant under
 * proof: the two vectors are IN STEP (equal counts, entry k of the map belongs to instruction k) after every operation
 * that changes their counts: janetc_emit (emit.c) and janetc_throwaway (compile.c, dead-code elimination).
 * Real janet_v_grow (vector.c); janet_srealloc is modelled by realloc. Plain mode. */
#include "prelude.h"
#include <stdlib.h>

void *sm_srealloc(void *p, size_t n) { void *q = realloc(p, n); __CPROVER_assume(q != (void *)0); return q; }

static JanetCompiler sm_c;
static int32_t sm_n0;

/* vectors with `n` entries and capacity `cap` (janet_v layout: two int32 header words before the data) */
static void *sm_vec(size_t itemsize, int32_t n, int32_t cap) {
    int32_t *raw = malloc(2 * sizeof(int32_t) + itemsize * (size_t) cap);
    __CPROVER_assume(raw != (int32_t *)0);
    raw[0] = cap; raw[1] = n;
    return raw + 2;
}
static void sm_setup(void) {
    sm_n0 = nd_i32();
    __CPROVER_assume(sm_n0 >= 0 && sm_n0 <= 3);
    if (sm_n0 == 0 && nd_int()) { sm_c.buffer = (uint32_t *)0; sm_c.mapbuffer = (JanetSourceMapping *)0; }   /* fresh compiler */
    else {
        int32_t cap = nd_i32();
        __CPROVER_assume(cap > sm_n0 && cap <= 4);
        sm_c.buffer = sm_vec(sizeof(uint32_t), sm_n0, cap);
        sm_c.mapbuffer = sm_vec(sizeof(JanetSourceMapping), sm_n0, cap);
    }
    sm_c.current_mapping.line = nd_i32(); sm_c.current_mapping.column = nd_i32();
}
#define IN_STEP() (janet_v_count(sm_c.buffer) == janet_v_count(sm_c.mapbuffer))

void h_emit(void) {
    sm_setup();
    uint32_t instr = nd_u32();
    JanetSourceMapping m = sm_c.current_mapping;
    janetc_emit(&sm_c, instr);
    __CPROVER_assert(janet_v_count(sm_c.buffer) == sm_n0 + 1 && IN_STEP(), "comp.srcmap: emit appends one instruction and one mapping (vectors stay in step)");
    __CPROVER_assert(sm_c.buffer[sm_n0] == instr, "comp.srcmap: the instruction is the last entry");
    __CPROVER_assert(sm_c.mapbuffer[sm_n0].line == m.line && sm_c.mapbuffer[sm_n0].column == m.column, "comp.srcmap: the new instruction is mapped to the form being compiled");
    REACH("emit returns");
}

/* ---- janetc_throwaway: compiles a dead form and discards its code ---- */
static int sm_value_calls;
JanetSlot sm_value_stub(JanetFopts opts, Janet x) {
    /* contract of janetc_value as far as the two vectors go: emits 0..2 instructions through janetc_emit */
    sm_value_calls++;
    __CPROVER_assert(opts.compiler == &sm_c, "comp.srcmap: the dead form is compiled by the same compiler");
    int k = nd_int();
    if (k >= 1) janetc_emit(&sm_c, nd_u32());
    if (k >= 2) janetc_emit(&sm_c, nd_u32());
    JanetSlot s; s.flags = 0; s.index = 0; s.envindex = -1; s.constant.type = JANET_NIL; s.constant.as.u64 = 0;
    return s;
}
void sm_scope_stub(JanetScope *s, JanetCompiler *c, int flags, const char *name) {}
void sm_popscope_stub(JanetCompiler *c) {}
void sm_lintf_stub(JanetCompiler *c, JanetCompileLintLevel level, const char *format, ...) {}

void h_throwaway(void) {
    sm_setup();
    JanetFopts opts; opts.compiler = &sm_c; opts.flags = nd_u32(); opts.hint.flags = 0; opts.hint.index = 0; opts.hint.envindex = -1;
    Janet x; x.type = JANET_NIL; x.as.u64 = 0;
    sm_value_calls = 0;
    janetc_throwaway(opts, x);
    __CPROVER_assert(sm_value_calls == 1, "comp.srcmap: the dead form is compiled once (for its lint diagnostics)");
    __CPROVER_assert(janet_v_count(sm_c.buffer) == sm_n0, "comp.srcmap: throwaway discards every instruction of the dead form");
    __CPROVER_assert(IN_STEP(), "comp.srcmap: throwaway discards the mappings of the discarded instructions too (vectors stay in step)");
    if (janet_v_count(sm_c.buffer) > 0) REACH("throwaway with earlier code");
    REACH("throwaway returns");
}
