/* C20: "spawning and reaping processes ... leaves the number of child processes bounded". The finaliser of a process
 * handle (janet_proc_gc, os.c) is the last chance to reap a child whose handle was dropped without os/proc-wait: unless the
 * process was already waited for (or zombies are explicitly allowed) it must kill the child and then WAIT for it - a
 * blocking waitpid on that pid, because the kill is asynchronous and a non-blocking wait would leave a zombie - except when
 * a helper thread is already blocked in waitpid for it (WAITING), which will reap it. */
#include "prelude.h"
static int pg_kill_calls, pg_wait_calls, pg_seq, pg_kill_seq, pg_wait_seq; static pid_t pg_kill_pid, pg_wait_pid; static int pg_kill_sig, pg_wait_opts;
int pg_kill_stub(pid_t pid, int sig) { pg_kill_calls++; pg_kill_pid = pid; pg_kill_sig = sig; pg_kill_seq = ++pg_seq; return nd_int(); }
pid_t pg_waitpid_stub(pid_t pid, int *status, int options) { pg_wait_calls++; pg_wait_pid = pid; pg_wait_opts = options; pg_wait_seq = ++pg_seq; *status = nd_int(); return nd_int(); }
void h_proc_gc(void) {
  JanetProc proc; proc.flags = nd_int(); proc.pid = nd_int(); proc.return_code = nd_i32();
  proc.in = proc.out = proc.err = (JanetStream *)0;
  pg_kill_calls = pg_wait_calls = pg_seq = 0;
  int r = janet_proc_gc(&proc, sizeof proc);
  __CPROVER_assert(r == 0, "os.proc.gc: finaliser succeeds");
  int done = (proc.flags & (JANET_PROC_WAITED | JANET_PROC_ALLOW_ZOMBIE)) != 0;
  if (done) {
    __CPROVER_assert(pg_kill_calls == 0 && pg_wait_calls == 0, "os.proc.gc: a process already waited for (its pid may have been reused) is neither signalled nor waited for again");
    REACH("proc gc: already reaped");
  } else {
    __CPROVER_assert(pg_kill_calls == 1 && pg_kill_pid == proc.pid && pg_kill_sig == SIGKILL, "os.proc.gc: an unreaped child is killed");
    if (proc.flags & JANET_PROC_WAITING) {
      __CPROVER_assert(pg_wait_calls == 0, "os.proc.gc: a child that a helper thread is waiting for is reaped by that thread");
      REACH("proc gc: waiter thread reaps");
    } else {
      __CPROVER_assert(pg_wait_calls == 1 && pg_wait_pid == proc.pid && pg_kill_seq < pg_wait_seq, "os.proc.gc: the killed child is then waited for");
      __CPROVER_assert((pg_wait_opts & WNOHANG) == 0, "os.proc.gc: the wait blocks until the child is reaped (kill is asynchronous: a non-blocking wait leaves a zombie)");
      REACH("proc gc: kill and reap");
    }
  }
}
