#include "prelude.h"
size_t g_len, g_off;
/* deliberately wrong: claims the 2-byte form is NOT sign extended */
static int32_t readint_canary_c(UnmarshalState *st, const uint8_t **atdata)
__CPROVER_requires(__CPROVER_is_fresh(st, sizeof(*st)))
__CPROVER_requires(__CPROVER_is_fresh(atdata, sizeof(*atdata)))
__CPROVER_requires(g_len <= 0x7fffffff && g_off <= g_len)
__CPROVER_requires(__CPROVER_is_fresh(st->start, g_len))
__CPROVER_requires(__CPROVER_pointer_equals(st->end, st->start + g_len))
__CPROVER_requires(__CPROVER_pointer_equals(*atdata, st->start + g_off))
__CPROVER_assigns(*atdata)
__CPROVER_ensures((st->start[g_off] >= 128 && st->start[g_off] < 192) ==> __CPROVER_return_value >= 0)
;
void h_canary_readint(void) { UnmarshalState *st; const uint8_t **at; readint(st, at); REACH("canary"); }
