/* C15: comparison operators < > <= >= = not= with FEWER THAN TWO arguments: "the same result ... whether the call is compiled
 * inline ... or goes through the function as a first-class value". Inline (cfuns.c compreduce) such a call is the constant
 * true (false for not=). The first-class function is bytecode assembled by corelib.c templatize_comparator: a reference
 * interpreter of the few instructions it uses runs that bytecode for 0 and 1 arguments; it must return the same constant
 * without reading an argument that does not exist. Both real functions run; janet_quick_asm is a recording stub. */
#include "prelude.h"
static uint32_t cc_code[32]; static size_t cc_words;
void cc_quick_asm_stub(JanetTable *env, int32_t flags, const char *name, int32_t arity, int32_t min_arity, int32_t max_arity, int32_t slots, const uint32_t *bytecode, size_t bytecode_size, const char *doc) {
  cc_words = bytecode_size / sizeof(uint32_t);
  __CPROVER_assert(cc_words <= 32 && (flags & JANET_FUNCDEF_FLAG_VARARG) && min_arity == 0, "corelib.cmp: the comparator is a variadic function accepting any number of arguments");
  for (int i = 0; i < 32; i++) if ((size_t) i < cc_words) cc_code[i] = bytecode[i];
}
/* with fewer than two arguments the inlined call emits nothing: the emitters are unreachable */
JanetSlot cc_slot_stub(JanetFopts o) { __CPROVER_assert(0, "corelib.cmp: inline, fewer than two arguments emit no code"); JanetSlot s; s.flags = 0; s.index = 0; s.envindex = -1; return s; }
JanetSlot cc_far_stub(JanetCompiler *c) { __CPROVER_assert(0, "corelib.cmp: inline, fewer than two arguments emit no code"); JanetSlot s; s.flags = 0; s.index = 0; s.envindex = -1; return s; }
int32_t cc_sss_stub(JanetCompiler *c, uint8_t op, JanetSlot a, JanetSlot b, JanetSlot d, int wr) { __CPROVER_assert(0, "corelib.cmp: inline, fewer than two arguments emit no code"); return 0; }
int32_t cc_ssi_stub(JanetCompiler *c, uint8_t op, JanetSlot a, JanetSlot b, int8_t i, int wr) { __CPROVER_assert(0, "corelib.cmp: inline, fewer than two arguments emit no code"); return 0; }
int32_t cc_si_stub(JanetCompiler *c, uint8_t op, JanetSlot a, int16_t i, int wr) { __CPROVER_assert(0, "corelib.cmp: inline, fewer than two arguments emit no code"); return 0; }
static struct { int32_t cap, cnt; JanetSlot data[2]; } cc_args;
void h_cmp_few_args(void) {
  uint32_t op = nd_u32();
  __CPROVER_assume(op == JOP_GREATER_THAN || op == JOP_LESS_THAN || op == JOP_GREATER_THAN_EQUAL || op == JOP_LESS_THAN_EQUAL || op == JOP_EQUALS || op == JOP_NOT_EQUALS);
  int invert = nd_int() & 1;
  templatize_comparator((JanetTable *)0, 0, "cmp", invert, op, "doc");
  int32_t argn = nd_i32(); __CPROVER_assume(argn == 0 || argn == 1);
  /* inline side */
  JanetCompiler comp; JanetFopts opts; opts.compiler = &comp; opts.flags = 0;
  cc_args.cap = 2; cc_args.cnt = argn; cc_args.data[0].index = 4; cc_args.data[0].envindex = -1; cc_args.data[0].flags = 0;
  JanetSlot inl = compreduce(opts, cc_args.data, (int) op, 0, invert);
  __CPROVER_assert((inl.flags & JANET_SLOT_CONSTANT) && inl.constant.type == JANET_BOOLEAN, "corelib.cmp: inline, fewer than two arguments is a boolean constant");
  int expected = inl.constant.as.u64 != 0;
  /* reference interpreter: registers 1 (argn), 2 (flag), 3 (result) matter */
  int32_t r1 = 0, r5 = 0; int r2 = 0, r3 = -1; int32_t pc = 0; int done = 0;
  for (int step = 0; step < 8; step++) if (!done) {
    __CPROVER_assert(pc >= 0 && (size_t) pc < cc_words, "corelib.cmp: execution stays inside the function");
    uint32_t w = cc_code[pc]; uint32_t o = w & 0xFF;
    if (o == JOP_LENGTH) { r1 = argn; pc++; }
    else if (o == JOP_LESS_THAN_IMMEDIATE) { r2 = r1 < (int32_t)(int8_t)(w >> 24); pc++; }
    else if (o == JOP_JUMP_IF) { pc += r2 ? (int32_t)(int16_t)(w >> 16) : 1; }
    else if (o == JOP_JUMP_IF_NOT) { pc += r2 ? 1 : (int32_t)(int16_t)(w >> 16); }
    else if (o == JOP_LOAD_TRUE) { r3 = 1; pc++; }
    else if (o == JOP_LOAD_FALSE) { r3 = 0; pc++; }
    else if (o == JOP_LOAD_INTEGER) { r5 = (int32_t)(int16_t)(w >> 16); pc++; }
    else if (o == JOP_GET_INDEX) { __CPROVER_assert((int32_t)(w >> 24) < argn, "corelib.cmp: no argument is read that was not passed"); pc++; }
    else if (o == JOP_IN) { __CPROVER_assert(r5 < argn, "corelib.cmp: no argument is read that was not passed"); pc++; }
    else if (o == JOP_RETURN) { done = 1; }
    else { __CPROVER_assert(0, "corelib.cmp: with fewer than two arguments no comparison is executed"); done = 1; }
  }
  __CPROVER_assert(done && r3 == expected, "corelib.cmp: the first-class comparator returns the same constant as the inlined call for fewer than two arguments");
  REACH("cmp: few arguments");
}
