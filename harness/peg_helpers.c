/* C12: capture-state helpers of the PEG matcher (peg.c). dfcc contracts on the real static functions.
 *
 * The property (C12) names backtracking: "captures made inside a failed alternative vanish". The mechanism is the
 * CapState snapshot: cap_save records the heights of the three capture stacks, cap_load cuts ALL of them back to
 * exactly the recorded heights (and keeps tags/tagged_captures at one common height), cap_load_keept cuts only the
 * positional stacks (tagged captures survive for back-references), pushcap grows exactly the stacks the mode selects. */
#include "prelude.h"

/* representation invariant of a matcher state: the four stack objects exist and are pairwise distinct */
#define PEG_WF_STATE(s) \
  (__CPROVER_is_fresh(s, sizeof(PegState)) && \
   __CPROVER_is_fresh((s)->captures, sizeof(JanetArray)) && \
   __CPROVER_is_fresh((s)->scratch, sizeof(JanetBuffer)) && \
   __CPROVER_is_fresh((s)->tags, sizeof(JanetBuffer)) && \
   __CPROVER_is_fresh((s)->tagged_captures, sizeof(JanetArray)))

static CapState cap_save_c(PegState *s)
__CPROVER_requires(PEG_WF_STATE(s))
__CPROVER_assigns()
__CPROVER_ensures(__CPROVER_return_value.cap == s->captures->count)
__CPROVER_ensures(__CPROVER_return_value.scratch == s->scratch->count)
__CPROVER_ensures(__CPROVER_return_value.tcap == s->tagged_captures->count)
;

static void cap_load_c(PegState *s, CapState cs)
__CPROVER_requires(PEG_WF_STATE(s))
__CPROVER_assigns(s->scratch->count, s->captures->count, s->tags->count, s->tagged_captures->count)
__CPROVER_ensures(s->captures->count == cs.cap)
__CPROVER_ensures(s->scratch->count == cs.scratch)
__CPROVER_ensures(s->tagged_captures->count == cs.tcap)
__CPROVER_ensures(s->tags->count == cs.tcap)          /* wf_caps: tags and tagged captures stay at one height */
;

static void cap_load_keept_c(PegState *s, CapState cs)
__CPROVER_requires(PEG_WF_STATE(s))
__CPROVER_assigns(s->scratch->count, s->captures->count)     /* frame: the tagged stacks are NOT touched */
__CPROVER_ensures(s->captures->count == cs.cap)
__CPROVER_ensures(s->scratch->count == cs.scratch)
;

void h_cap_save(void) { PegState *s; cap_save(s); REACH("normal return of cap_save"); }
void h_cap_load(void) { PegState *s; CapState cs; cap_load(s, cs); REACH("normal return of cap_load"); }
void h_cap_load_keept(void) { PegState *s; CapState cs; cap_load_keept(s, cs); REACH("normal return of cap_load_keept"); }

/* save / grow / load round trip on the real functions (no contracts in between): whatever happened to the stack
 * heights after the snapshot, cap_load restores exactly the snapshot. */
static void cap_roundtrip(PegState *s, int32_t d1, int32_t d2, int32_t d3, int32_t d4) {
  CapState cs = cap_save(s);
  s->captures->count = d1; s->scratch->count = d2; s->tagged_captures->count = d3; s->tags->count = d4;
  cap_load(s, cs);
}
static void cap_roundtrip_c(PegState *s, int32_t d1, int32_t d2, int32_t d3, int32_t d4)
__CPROVER_requires(PEG_WF_STATE(s))
__CPROVER_requires(s->tags->count == s->tagged_captures->count)
__CPROVER_assigns(s->scratch->count, s->captures->count, s->tags->count, s->tagged_captures->count)
__CPROVER_ensures(s->captures->count == __CPROVER_old(s->captures->count))
__CPROVER_ensures(s->scratch->count == __CPROVER_old(s->scratch->count))
__CPROVER_ensures(s->tagged_captures->count == __CPROVER_old(s->tagged_captures->count))
__CPROVER_ensures(s->tags->count == __CPROVER_old(s->tags->count))
;
void h_cap_roundtrip(void) { PegState *s; cap_roundtrip(s, nd_i32(), nd_i32(), nd_i32(), nd_i32()); REACH("normal return of the save/load round trip"); }

/* ---- pushcap ------------------------------------------------------------------------------------------------
 * callee contracts (assumed; the array/buffer functions are under proof in C04): a push that returns has appended
 * exactly one element; janet_to_string_b only appends. */
void janet_array_push_c(JanetArray *array, Janet x)
__CPROVER_requires(__CPROVER_r_ok(array, sizeof(JanetArray)))
__CPROVER_assigns(array->count, array->capacity, array->data)
__CPROVER_ensures(__CPROVER_old(array->count) < INT32_MAX && array->count == __CPROVER_old(array->count) + 1)
;
void janet_buffer_push_u8_c(JanetBuffer *buffer, uint8_t x)
__CPROVER_requires(__CPROVER_r_ok(buffer, sizeof(JanetBuffer)))
__CPROVER_assigns(buffer->count, buffer->capacity, buffer->data)
__CPROVER_ensures(__CPROVER_old(buffer->count) < INT32_MAX && buffer->count == __CPROVER_old(buffer->count) + 1)
;
void janet_to_string_b_c(JanetBuffer *buffer, Janet x)
__CPROVER_requires(__CPROVER_r_ok(buffer, sizeof(JanetBuffer)))
__CPROVER_assigns(buffer->count, buffer->capacity, buffer->data)
__CPROVER_ensures(buffer->count >= __CPROVER_old(buffer->count))
;

int32_t g_cap0, g_scr0, g_tcap0, g_tags0;
static void pushcap_c(PegState *s, Janet capture, uint32_t tag)
__CPROVER_requires(PEG_WF_STATE(s))
__CPROVER_requires(s->mode == PEG_MODE_NORMAL || s->mode == PEG_MODE_ACCUMULATE)
__CPROVER_requires(s->tags->count == s->tagged_captures->count)
__CPROVER_requires(g_cap0 == s->captures->count && g_scr0 == s->scratch->count && g_tcap0 == s->tagged_captures->count && g_tags0 == s->tags->count)
__CPROVER_assigns(s->captures->count, s->captures->capacity, s->captures->data,
                  s->scratch->count, s->scratch->capacity, s->scratch->data,
                  s->tags->count, s->tags->capacity, s->tags->data,
                  s->tagged_captures->count, s->tagged_captures->capacity, s->tagged_captures->data)
/* normal mode: exactly one positional capture, accumulator untouched */
__CPROVER_ensures(s->mode == PEG_MODE_NORMAL ==> (s->captures->count == g_cap0 + 1 && s->scratch->count == g_scr0))
/* accumulate mode: the positional stack is untouched, the accumulator only grows */
__CPROVER_ensures(s->mode == PEG_MODE_ACCUMULATE ==> (s->captures->count == g_cap0 && s->scratch->count >= g_scr0))
/* tagged stacks: one entry each iff the grammar uses back-references, and they stay at one common height */
__CPROVER_ensures(s->has_backref ==> (s->tagged_captures->count == g_tcap0 + 1 && s->tags->count == g_tags0 + 1))
__CPROVER_ensures(!s->has_backref ==> (s->tagged_captures->count == g_tcap0 && s->tags->count == g_tags0))
__CPROVER_ensures(s->tags->count == s->tagged_captures->count)
;
void h_pushcap(void) { PegState *s; Janet c; pushcap(s, c, nd_u32()); REACH("normal return of pushcap"); }

/* ---- peg_convert_u64_s64: sign extension of the low `width` bytes ------------------------------------------- */
static int64_t peg_convert_u64_s64_c(uint64_t from, int width)
__CPROVER_requires(1 <= width && width <= 8)
__CPROVER_assigns()
/* value = low 8*width bits of `from` read as a two's complement number of that width */
__CPROVER_ensures(width == 8 ==> __CPROVER_return_value == (int64_t) from)
__CPROVER_ensures(width < 8 ==> (
    ((from >> (8 * width - 1)) & 1)
      ? __CPROVER_return_value == (int64_t)(from & ((1ULL << (8 * width)) - 1)) - (int64_t)(1ULL << (8 * width))
      : __CPROVER_return_value == (int64_t)(from & ((1ULL << (8 * width)) - 1))))
;
void h_convert(void) { peg_convert_u64_s64(nd_u64(), nd_int()); REACH("normal return of peg_convert_u64_s64"); }

/* ---- get_linecol_from_position: the binary search over the (already generated) line map ------------------------
 * linemap[k] = offset of the k-th '\n' of the text.  Result (1-indexed): line-2 is an index whose newline lies strictly
 * before `position`, the next map entry (if any) lies at or after it, and col counts from that newline; on the first
 * line col = position + 1.  (For the ascending map that linemap generation produces this determines line and col uniquely.)
 * The loop is closed by a loop contract (units/C12.json): any map length. */
int32_t g_nlines;
static LineCol get_linecol_from_position_c(PegState *s, int32_t position)
__CPROVER_requires(__CPROVER_is_fresh(s, sizeof(PegState)))
__CPROVER_requires(g_nlines >= 0 && g_nlines <= (1 << 28) && s->linemaplen == g_nlines)   /* 2^28 newlines: 1 GiB line map object */
__CPROVER_requires(__CPROVER_is_fresh(s->linemap, sizeof(int32_t) * (size_t) g_nlines))
__CPROVER_requires(position >= 0 && position < INT32_MAX)
__CPROVER_assigns()
__CPROVER_ensures(__CPROVER_return_value.line >= 1 && __CPROVER_return_value.line <= g_nlines + 1)
__CPROVER_ensures(__CPROVER_return_value.line == 1 ==> __CPROVER_return_value.col == position + 1)
__CPROVER_ensures(__CPROVER_return_value.line == 1 && g_nlines > 0 ==> s->linemap[0] >= position)
__CPROVER_ensures(__CPROVER_return_value.line >= 2 ==> (s->linemap[__CPROVER_return_value.line - 2] < position &&
                  __CPROVER_return_value.col == position - s->linemap[__CPROVER_return_value.line - 2]))   /* int32 arithmetic as in the code; exact when map entries are >= 0 (R2: not expressible here) */
__CPROVER_ensures(__CPROVER_return_value.line >= 2 && __CPROVER_return_value.line <= g_nlines ==> s->linemap[__CPROVER_return_value.line - 1] >= position)
;
void h_linecol(void) { PegState *s; get_linecol_from_position(s, nd_i32()); REACH("normal return of get_linecol_from_position"); }
