/* Selects the portable switch dispatch of run_vm (vm.c:56-73) instead of GCC computed gotos: all headers are included
 * first (they are include-guarded), so defining __EMSCRIPTEN__ here only affects the dispatch macros of vm.c. The opcode
 * bodies are the same text in both configurations. */
#include "features.h"
#include <janet.h>
#include "state.h"
#include "fiber.h"
#include "gc.h"
#include "symcache.h"
#include "util.h"
#include <math.h>
#define __EMSCRIPTEN__ 1
