/* C01: the range walkers janet_mark_many / _keys / _values / _kvs - janet_mark is called for EVERY element of the range handed over
 * (ghost index g_idx: the element values[g_idx], resp. the key and/or value of bucket kvs[g_idx]) and exactly n (resp. 2n) times,
 * reading nothing outside [base, base + n).  These are the functions the other C01 units replace by "(base, n) was handed over".
 * BOUNDED: pointer-walking loops (DESIGN R14): n <= VC_WALK_N, unwinding assertion on; janet_mark replaced by a recording stub. */
#include "gc_mark.h"
#ifndef VC_WALK_N
#define VC_WALK_N 8
#endif
void rec_mark(Janet x) { g_val_seen = g_val_seen || JEQ(x, g_val); g_val_calls++; }

int32_t g_idx, g_n;
/* arbitrary contents: fresh heap objects are nondeterministic.  (NOT uninitialised local arrays: CBMC 6.11 gives the per-element
 * symbols of a field-expanded local array and its whole-array symbol independent nondet values - a read at a symbolic index and a
 * read at the equal constant index then disagree; probed.) */
#define ARRAYS Janet *g_vals = malloc(sizeof(Janet) * VC_WALK_N); JanetKV *g_kvs = malloc(sizeof(JanetKV) * VC_WALK_N);
static void setup(void) {
  g_n = nd_i32(); g_idx = nd_i32();
  __CPROVER_assume(g_n >= 0 && g_n <= VC_WALK_N && g_idx >= 0 && g_idx < VC_WALK_N);
  g_val_seen = 0; g_val_calls = 0;
}
#define WALK(c, msg) __CPROVER_assert(c, "C01 walker: " msg)

void h_walk_many(void) {
  ARRAYS setup(); JCOPY(g_val, g_vals[g_idx]);
  janet_mark_many(g_vals, g_n);
  WALK(g_idx >= g_n || g_val_seen, "janet_mark_many marks every element values[0..n)");
  WALK(g_val_calls == (unsigned) g_n, "janet_mark_many marks exactly n values");
  REACH("janet_mark_many returns");
}
void h_walk_many_null(void) {
  ARRAYS setup();
  janet_mark_many((const Janet *) 0, g_n);
  WALK(g_val_calls == 0, "janet_mark_many on a NULL base (empty array / env without storage) marks nothing and reads nothing");
  REACH("janet_mark_many(NULL) returns");
}
void h_walk_keys(void) {
  ARRAYS setup(); JCOPY(g_val, g_kvs[g_idx].key);
  janet_mark_keys(g_kvs, g_n);
  WALK(g_idx >= g_n || g_val_seen, "janet_mark_keys marks the key of every bucket kvs[0..n)");
  WALK(g_val_calls == (unsigned) g_n, "janet_mark_keys marks exactly n values");
  REACH("janet_mark_keys returns");
}
void h_walk_values(void) {
  ARRAYS setup(); JCOPY(g_val, g_kvs[g_idx].value);
  janet_mark_values(g_kvs, g_n);
  WALK(g_idx >= g_n || g_val_seen, "janet_mark_values marks the value of every bucket kvs[0..n)");
  WALK(g_val_calls == (unsigned) g_n, "janet_mark_values marks exactly n values");
  REACH("janet_mark_values returns");
}
void h_walk_kvs(void) {
  ARRAYS setup(); if (nd_int()) JCOPY(g_val, g_kvs[g_idx].key); else JCOPY(g_val, g_kvs[g_idx].value);
  janet_mark_kvs(g_kvs, g_n);
  WALK(g_idx >= g_n || g_val_seen, "janet_mark_kvs marks the key and the value of every bucket kvs[0..n)");
  WALK(g_val_calls == 2u * (unsigned) g_n, "janet_mark_kvs marks exactly 2n values");
  REACH("janet_mark_kvs returns");
}
