/* C14: 64-bit integer methods of inttypes.c.
 * Callee contracts installed as asserting/recording stubs via goto-instrument --replace-calls:
 *   janet_unwrap_s64/u64 : may return ANY 64-bit value (assumed contract; the value is recorded by argument slot)
 *   janet_abstract       : returns the ghost result box
 *   janet_arity/fixarity : return only if argc is in range (their documented contract)
 * Top-level postconditions are taken from the property statement: two's-complement wrap-around computed with
 * unsigned arithmetic; C truncating / and %; floor div/mod; mod by zero yields the dividend; / % div by zero raise. */
#include "prelude.h"

int64_t g_val[4];           /* operand values by argv slot */
int64_t g_box;              /* ghost: the result box */
static Janet mkarg(int k) { Janet x; x.u64 = (uint64_t)k; return x; }
int64_t unwrap_s64_stub(Janet x) { return g_val[x.u64 & 3]; }
uint64_t unwrap_u64_stub(Janet x) { return (uint64_t) g_val[x.u64 & 3]; }
void *abstract_stub(const JanetAbstractType *t, size_t sz) { __CPROVER_assert(sz == 8, "box size"); return &g_box; }
void arity_stub(int32_t argc, int32_t a, int32_t b) { __CPROVER_assume(argc >= a && (b < 0 || argc <= b)); }
void fixarity_stub(int32_t argc, int32_t a) { __CPROVER_assume(argc == a); }
static void keep_stubs(void) { unwrap_s64_stub(mkarg(0)); unwrap_u64_stub(mkarg(0)); abstract_stub(0, 8); arity_stub(0,0,0); fixarity_stub(0,0); }

#define SETUP(n) g_val[0] = nd_i64(); g_val[1] = nd_i64(); g_val[2] = nd_i64(); g_val[3] = nd_i64(); Janet argv[4]; argv[0] = mkarg(0); argv[1] = mkarg(1); argv[2] = mkarg(2); argv[3] = mkarg(3); \
   int64_t a = g_val[0], b = g_val[1], c = g_val[2]; uint64_t ua = a, ub = b, uc = c; (void)c; (void)uc; (void)ua; (void)ub;

/* ---- wrap-around binary operators (argc == 2 and the 3-argument left fold) ---- */
#define H_WRAP(T, name, OP) \
void h_##T##_##name(void) { SETUP(2) \
  cfun_it_##T##_##name(2, argv); \
  __CPROVER_assert((uint64_t)g_box == (uint64_t)(ua OP ub), "C14 " #T " " #name ": two's-complement result of a " #OP " b"); \
  REACH(#T " " #name " returns"); } \
void h_##T##_##name##_fold3(void) { SETUP(3) \
  cfun_it_##T##_##name(3, argv); \
  __CPROVER_assert((uint64_t)g_box == (uint64_t)((ua OP ub) OP uc), "C14 " #T " " #name ": left fold over three operands"); \
  REACH(#T " " #name " fold returns"); }
H_WRAP(s64, add, +) H_WRAP(s64, sub, -) H_WRAP(s64, mul, *) H_WRAP(s64, and, &) H_WRAP(s64, or, |) H_WRAP(s64, xor, ^)
H_WRAP(u64, add, +) H_WRAP(u64, sub, -) H_WRAP(u64, mul, *) H_WRAP(u64, and, &) H_WRAP(u64, or, |) H_WRAP(u64, xor, ^)

/* reversed subtraction: method r- is called as (r- self other) and must yield other - self */
void h_s64_subi(void) { SETUP(2) cfun_it_s64_subi(2, argv);
  __CPROVER_assert((uint64_t)g_box == ub - ua, "C14 s64 r-: other - self, wrapping"); REACH("s64 subi returns"); }
void h_u64_subi(void) { SETUP(2) cfun_it_u64_subi(2, argv);
  __CPROVER_assert((uint64_t)g_box == ub - ua, "C14 u64 r-: other - self, wrapping"); REACH("u64 subi returns"); }
void h_s64_not(void) { SETUP(1) cfun_it_s64_not(1, argv);
  __CPROVER_assert(g_box == ~a, "C14 s64 ~"); REACH("s64 not returns"); }
void h_u64_not(void) { SETUP(1) cfun_it_u64_not(1, argv);
  __CPROVER_assert((uint64_t)g_box == ~ua, "C14 u64 ~"); REACH("u64 not returns"); }

/* ---- division family: UB-freedom (generated overflow / div-by-zero obligations on the real bodies),
 *      raise on zero divisor, mod by zero yields the dividend. Functional quotient: see h_*_const below. ---- */
#define H_DIV_UB(T, name, ZERO_RAISES, AIDX, BIDX) \
void h_##T##_##name##_ub(void) { SETUP(2) \
  cfun_it_##T##_##name(2, argv); \
  if (ZERO_RAISES) __CPROVER_assert(g_val[BIDX] != 0, "C14 " #T " " #name ": zero divisor raises (no normal return)"); \
  else __CPROVER_assert(g_val[BIDX] != 0 || g_box == g_val[AIDX], "C14 " #T " " #name ": modulo by zero yields the dividend"); \
  REACH(#T " " #name " returns"); }
H_DIV_UB(s64, div, 1, 0, 1)  H_DIV_UB(s64, rem, 1, 0, 1)  H_DIV_UB(s64, divi, 1, 1, 0)  H_DIV_UB(s64, remi, 1, 1, 0)
H_DIV_UB(s64, divf, 1, 0, 1) H_DIV_UB(s64, divfi, 1, 1, 0) H_DIV_UB(s64, mod, 0, 0, 1)  H_DIV_UB(s64, modi, 0, 1, 0)
H_DIV_UB(u64, div, 1, 0, 1)  H_DIV_UB(u64, rem, 1, 0, 1)  H_DIV_UB(u64, divi, 1, 1, 0)  H_DIV_UB(u64, remi, 1, 1, 0)
H_DIV_UB(u64, mod, 0, 0, 1)  H_DIV_UB(u64, modi, 0, 1, 0)

/* functional result with the divisor pinned to the compile-time constant DIVISOR (dividend: all 2^64 values).
 * floor spec in 128-bit arithmetic: q*b <= a < (q+1)*b (b>0), mirrored for b<0; trunc spec: |a - q*b| < |b| and sign rule */
#ifdef DIVISOR
#define PIN(BIDX) __CPROVER_assume(g_val[BIDX] == (int64_t)(DIVISOR))
#define FLOORQ(q, a, b) (((b) > 0) ? ((__int128)(q) * (b) <= (a) && (a) < ((__int128)(q) + 1) * (b)) : ((__int128)(q) * (b) >= (a) && (a) > ((__int128)(q) + 1) * (b)))
#define H_FLOORDIV(name, AIDX, BIDX) void h_s64_##name##_const(void) { SETUP(2) PIN(BIDX); \
  cfun_it_s64_##name(2, argv); int64_t A = g_val[AIDX], Bv = g_val[BIDX]; \
  __CPROVER_assert(FLOORQ(g_box, A, Bv), "C14 s64 " #name ": floor quotient"); REACH("s64 " #name " const returns"); }
H_FLOORDIV(divf, 0, 1) H_FLOORDIV(divfi, 1, 0)
#define H_FLOORMOD(name, AIDX, BIDX) void h_s64_##name##_const(void) { SETUP(2) PIN(BIDX); \
  cfun_it_s64_##name(2, argv); int64_t A = g_val[AIDX], Bv = g_val[BIDX]; __int128 m = g_box; \
  /* m = A - floor(A/B)*B : 0 <= m < B (B>0) or B < m <= 0 (B<0), and (A - m) divisible by B */ \
  __CPROVER_assert(Bv > 0 ? (m >= 0 && m < Bv) : (m <= 0 && m > Bv), "C14 s64 " #name ": result has the sign of the divisor and is smaller in magnitude"); \
  __CPROVER_assert((((__int128)A - m) % Bv) == 0, "C14 s64 " #name ": dividend - result is a multiple of the divisor"); REACH("s64 " #name " const returns"); }
H_FLOORMOD(mod, 0, 1) H_FLOORMOD(modi, 1, 0)
#define H_TRUNC(T, name, AIDX, BIDX, CT, ISREM) void h_##T##_##name##_const(void) { SETUP(2) PIN(BIDX); \
  cfun_it_##T##_##name(2, argv); CT A = (CT) g_val[AIDX], Bv = (CT) g_val[BIDX], R = (CT) g_box; \
  __int128 q = ISREM ? 0 : (__int128) R, r = ISREM ? (__int128) R : (__int128)A - (__int128)R * Bv; \
  __int128 absb = (__int128)Bv < 0 ? -(__int128)Bv : (__int128)Bv, absr = r < 0 ? -r : r; \
  __CPROVER_assert(absr < absb, "C14 " #T " " #name ": |remainder| < |divisor|"); \
  __CPROVER_assert(r == 0 || ((r < 0) == ((__int128)A < 0)), "C14 " #T " " #name ": remainder has the sign of the dividend (truncation)"); \
  if (ISREM) __CPROVER_assert((((__int128)A - r) % (__int128)Bv) == 0, "C14 " #T " " #name ": dividend - remainder is a multiple of the divisor"); \
  (void)q; REACH(#T " " #name " const returns"); }
H_TRUNC(s64, div, 0, 1, int64_t, 0) H_TRUNC(s64, divi, 1, 0, int64_t, 0) H_TRUNC(s64, rem, 0, 1, int64_t, 1) H_TRUNC(s64, remi, 1, 0, int64_t, 1)
H_TRUNC(u64, div, 0, 1, uint64_t, 0) H_TRUNC(u64, divi, 1, 0, uint64_t, 0) H_TRUNC(u64, rem, 0, 1, uint64_t, 1) H_TRUNC(u64, remi, 1, 0, uint64_t, 1)
H_TRUNC(u64, mod, 0, 1, uint64_t, 1) H_TRUNC(u64, modi, 1, 0, uint64_t, 1)
#endif

/* ---- exact mixed comparison (loop-free, every int64 x every non-NaN double) ----
 * spec uses only truncation and comparisons (no floor): all doubles of magnitude >= 2^53 are integers. */
static int exact_cmp_i64_double(int64_t x, double y) {
  if (y >= 9223372036854775808.0) return -1;
  if (y < -9223372036854775808.0) return 1;
  int64_t yi = (int64_t) y;                 /* defined: -2^63 <= y < 2^63, truncates toward zero */
  if (x < yi) return -1;
  if (x > yi) return 1;
  double back = (double) yi;                /* exact: trunc(y) is a double */
  return (back < y) ? -1 : (back > y) ? 1 : 0;
}
static int exact_cmp_u64_double(uint64_t x, double y) {
  if (y >= 18446744073709551616.0) return -1;
  if (y < 0.0) return 1;
  uint64_t yi = (uint64_t) y;
  if (x < yi) return -1;
  if (x > yi) return 1;
  double back = (double) yi;
  return (back < y) ? -1 : (back > y) ? 1 : 0;
}
void h_cmp_i64_double(void) {
  int64_t x = nd_i64(); double y = nd_double(); __CPROVER_assume(!isnan(y));
  int r = compare_int64_double(x, y);
  __CPROVER_assert(r == exact_cmp_i64_double(x, y), "C14 int/s64 vs double: exact mathematical order over the whole range");
  REACH("compare_int64_double returns");
}
void h_cmp_u64_double(void) {
  uint64_t x = nd_u64(); double y = nd_double(); __CPROVER_assume(!isnan(y));
  int r = compare_uint64_double(x, y);
  __CPROVER_assert(r == exact_cmp_u64_double(x, y), "C14 int/u64 vs double: exact mathematical order over the whole range");
  REACH("compare_uint64_double returns");
}
/* abstract-type compare callbacks: sign of the exact difference */
void h_cmp_callbacks(void) {
  int64_t x = nd_i64(), y = nd_i64(); uint64_t ux = nd_u64(), uy = nd_u64();
  int r = janet_int64_compare(&x, &y), ur = janet_uint64_compare(&ux, &uy);
  __CPROVER_assert(r == (x < y ? -1 : x > y ? 1 : 0), "C14 s64 compare callback");
  __CPROVER_assert(ur == (ux < uy ? -1 : ux > uy ? 1 : 0), "C14 u64 compare callback");
  int64_t x2 = x;
  __CPROVER_assert(janet_int64_hash(&x, 8) == janet_int64_hash(&x2, 8), "C03/C14 equal boxes hash equal");
  REACH("callbacks return");
}

/* ---- shifts (methods << >> of int/s64 and int/u64), shift distance 0..63 (a distance >= 64 or < 0 is undefined in C: an
 *      observation recorded in DESIGN, outside this contract). Spec written without signed shifts:
 *      lshift: low 64 bits of a * 2^k; u64 rshift: logical; s64 rshift: ARITHMETIC (floor(a / 2^k), the sign is kept) - the same
 *      result brshift gives for ordinary numbers. ---- */
#define SHIFT_SETUP SETUP(2) __CPROVER_assume(b >= 0 && b <= 63); unsigned k = (unsigned) b;
void h_s64_rshift(void) { SHIFT_SETUP cfun_it_s64_rshift(2, argv);
  uint64_t want = a >= 0 ? (ua >> k) : ~((~ua) >> k);
  __CPROVER_assert((uint64_t) g_box == want, "C14 s64 >>: arithmetic shift, floor(a / 2^k), sign kept");
  __CPROVER_assert((g_box < 0) == (a < 0), "C14 s64 >>: the sign of the operand is kept");
  REACH("s64 rshift returns"); }
void h_u64_rshift(void) { SHIFT_SETUP cfun_it_u64_rshift(2, argv);
  __CPROVER_assert((uint64_t) g_box == (ua >> k), "C14 u64 >>: logical shift");
  REACH("u64 rshift returns"); }
void h_s64_lshift(void) { SHIFT_SETUP cfun_it_s64_lshift(2, argv);
  __CPROVER_assert((uint64_t) g_box == (ua << k), "C14 s64 <<: low 64 bits of a * 2^k");
  REACH("s64 lshift returns"); }
void h_u64_lshift(void) { SHIFT_SETUP cfun_it_u64_lshift(2, argv);
  __CPROVER_assert((uint64_t) g_box == (ua << k), "C14 u64 <<: low 64 bits of a * 2^k");
  REACH("u64 lshift returns"); }
