/* C17 (C level): tuple.c - the constructors janet_tuple_begin / janet_tuple_end / janet_tuple_n and the registered C
 * functions tuple/brackets, tuple/slice, tuple/type, tuple/sourcemap, tuple/setmap, tuple/join - under dfcc contracts.
 * Trusted stubs: janet_gcalloc (fresh block of the requested size, type and size recorded), janet_array_calchash
 * (arbitrary value), the capi.c getters (janet_gettuple -> the data pointer of a harness-built tuple block of any length,
 * janet_getinteger -> low 32 bits of the slot, janet_getindexed -> any readable indexed view, janet_getslice -> its
 * contract, each asserting slot index < argc), janet_indexed_view (pure function of the value, parts of tuple/join),
 * janet_csymbol (records the C string, returns a fixed keyword pointer), memcpy model of seq_common.h (element = Janet). */
#include "seq_common.h"

int32_t g_argc;
void *g_new0, *g_new1; size_t g_new_size; enum JanetMemoryType g_new_type;
JanetTupleHead *g_th;        /* the tuple argument (slot 0 of type / sourcemap / setmap) */
JanetView g_view;            /* slot 0 of tuple/slice */
const uint8_t *g_kwptr; const char *g_kwname;
int32_t g_flags0, g_hash0;   /* pre-state of the tuple argument's header */
#define SLOT_OK(n) __CPROVER_assert((n) >= 0 && (n) < g_argc, "argument slot index below argc")
#define SLOT_INT(argv, n) ((int32_t)((int64_t)((argv)[n].u64 & 0xFFFFFFFFull) - (((argv)[n].u64 & 0x80000000ull) ? 0x100000000ll : 0ll)))
void janet_fixarity(int32_t argc, int32_t fix) { __CPROVER_assume(argc == fix); }
void janet_arity(int32_t argc, int32_t min, int32_t max) { __CPROVER_assume(argc >= min && (max < 0 || argc <= max)); }
int32_t janet_getinteger(const Janet *argv, int32_t n) { SLOT_OK(n); return SLOT_INT(argv, n); }
const Janet *janet_gettuple(const Janet *argv, int32_t n) { SLOT_OK(n); __CPROVER_assert(n == 0, "tuple is slot 0"); return g_th->data; }
JanetView janet_getindexed(const Janet *argv, int32_t n) { SLOT_OK(n); __CPROVER_assert(n == 0, "view is slot 0"); return g_view; }
JanetRange g_range;
JanetRange janet_getslice(int32_t argc, const Janet *argv) {
  __CPROVER_assume(argc >= 1 && argc <= 3 && 0 <= g_range.start && g_range.start <= g_range.end && g_range.end <= g_view.len);
  return g_range;
}
void *janet_gcalloc(enum JanetMemoryType type, size_t size) {
  void *p = malloc(size);
  __CPROVER_assume(p != SEQ_NULL);
  if (g_new0 == SEQ_NULL) { g_new0 = p; g_new_size = size; g_new_type = type; } else g_new1 = p;
  return p;
}
const uint8_t *janet_csymbol(const char *str) { g_kwname = str; return g_kwptr; }
/* parts of tuple/join: argument k is an indexed sequence iff g_pok[k]; its view is g_pv[k]; equal values, equal views */
#define LIB_MAXPARTS 2
int g_pok[LIB_MAXPARTS]; JanetView g_pv[LIB_MAXPARTS]; const Janet *g_argv;
int janet_indexed_view(Janet x, const Janet **data, int32_t *len) {
  int k = -1;
  for (int i = LIB_MAXPARTS - 1; i >= 0; i--) if (i < g_argc && g_argv[i].u64 == x.u64) k = i;
  __CPROVER_assert(k >= 0, "janet_indexed_view: called with an argument");
  if (!g_pok[k]) return 0;
  *data = g_pv[k].items; *len = g_pv[k].len;
  return 1;
}

static void mk_view(JanetView *v) {
  v->len = nd_i32();
  __CPROVER_assume(v->len >= 0);
  Janet *p = malloc((size_t)v->len * sizeof(Janet));
  __CPROVER_assume(p != SEQ_NULL);
  v->items = p;
}
static Janet *mk_args(void) {
  g_argc = nd_i32();
  __CPROVER_assume(g_argc >= 0);
  Janet *argv = malloc((size_t)g_argc * sizeof(Janet));
  __CPROVER_assume(argv != SEQ_NULL);
  g_argv = argv;
  int32_t n = nd_i32();
  __CPROVER_assume(n >= 0);
  g_th = malloc(sizeof(JanetTupleHead) + (size_t)n * sizeof(Janet));
  __CPROVER_assume(g_th != SEQ_NULL);
  g_th->length = n;
  mk_view(&g_view);
  g_new0 = SEQ_NULL; g_new1 = SEQ_NULL;
  g_kwptr = malloc(1);
  __CPROVER_assume(g_kwptr != SEQ_NULL);
  return argv;
}
#define VIEW_OK(v) ((v).len >= 0 && ((v).len == 0 || __CPROVER_r_ok((v).items, (size_t)(v).len * JSZ)))
#define ARGS_PRE __CPROVER_requires(argc == g_argc && argc >= 0 && __CPROVER_r_ok(argv, (size_t)argc * JSZ) && g_new0 == SEQ_NULL && g_argv == argv)
#define NEWT ((JanetTupleHead *)g_new0)
#define NEW_FRAME __CPROVER_assigns(g_new0, g_new1, g_new_size, g_new_type, g_kwname)
#define RET_NEW_TUPLE(len) \
  __CPROVER_ensures(g_new0 != SEQ_NULL && g_new1 == SEQ_NULL && g_new_type == JANET_MEMORY_TUPLE && __CPROVER_return_value.u64 == janet_wrap_tuple(NEWT->data).u64) \
  __CPROVER_ensures(g_new_size == sizeof(JanetTupleHead) + (size_t)(len) * JSZ && NEWT->length == (len) && NEWT->sm_line == -1 && NEWT->sm_column == -1)

/* ---- constructors ---- */
Janet *janet_tuple_begin_c(int32_t length)
__CPROVER_requires(length >= 0 && g_new0 == SEQ_NULL)
NEW_FRAME
__CPROVER_ensures(g_new0 != SEQ_NULL && g_new1 == SEQ_NULL && g_new_type == JANET_MEMORY_TUPLE && __CPROVER_return_value == (Janet *)NEWT->data)
__CPROVER_ensures(g_new_size == sizeof(JanetTupleHead) + (size_t)length * JSZ && NEWT->length == length && NEWT->sm_line == -1 && NEWT->sm_column == -1)
;
void h_tuple_begin(void) { int32_t n = nd_i32(); g_new0 = SEQ_NULL; g_new1 = SEQ_NULL; Janet *t = janet_tuple_begin(n); REACH("janet_tuple_begin returns"); if (n > 2) REACH("janet_tuple_begin returns for a length above two"); }
const Janet *g_vals;
const Janet *janet_tuple_n_c(const Janet *values, int32_t n)
__CPROVER_requires(n >= 0 && (n == 0 || __CPROVER_r_ok(values, (size_t)n * JSZ)) && g_new0 == SEQ_NULL && g_vals == values)
NEW_FRAME
__CPROVER_ensures(g_new0 != SEQ_NULL && g_new1 == SEQ_NULL && g_new_type == JANET_MEMORY_TUPLE && __CPROVER_return_value == NEWT->data)
__CPROVER_ensures(g_new_size == sizeof(JanetTupleHead) + (size_t)n * JSZ && NEWT->length == n && NEWT->sm_line == -1 && NEWT->sm_column == -1)
__CPROVER_ensures(g_mm < (size_t)n ==> NEWT->data[g_mm].u64 == g_vals[g_mm].u64)
;
void h_tuple_n(void) {
  JanetView v; mk_view(&v); g_vals = v.items; g_new0 = SEQ_NULL; g_new1 = SEQ_NULL;
  janet_tuple_n(v.items, v.len);
  REACH("janet_tuple_n returns"); if (v.len > 2) REACH("janet_tuple_n returns for more than two values");
}

/* ---- (tuple/brackets & xs): a NEW bracketed tuple of the arguments, in order */
static Janet cfun_tuple_brackets_c(int32_t argc, Janet *argv)
ARGS_PRE NEW_FRAME RET_NEW_TUPLE(argc)
__CPROVER_ensures((NEWT->gc.flags & JANET_TUPLE_FLAG_BRACKETCTOR) != 0)
__CPROVER_ensures(g_mm < (size_t)argc ==> NEWT->data[g_mm].u64 == argv[g_mm].u64)
;
void h_tuple_brackets(void) { Janet *argv = mk_args(); cfun_tuple_brackets(g_argc, argv); REACH("tuple/brackets returns");
  if (g_argc > 2) REACH("tuple/brackets returns for more than two arguments"); if (g_argc == 0) REACH("tuple/brackets returns the empty bracketed tuple"); }

/* ---- (tuple/slice arrtup &opt start end): a NEW tuple holding exactly items[start, end); source not modified */
static Janet cfun_tuple_slice_c(int32_t argc, Janet *argv)
ARGS_PRE __CPROVER_requires(VIEW_OK(g_view))
#ifndef LIB_SLICE_ANY_ARGC
__CPROVER_requires(argc >= 1)    /* argv[0] is read before the arity check, see lib.string.slice.argc0 / str.cfun.buffer.slice.argc0 */
#endif
NEW_FRAME RET_NEW_TUPLE(g_range.end - g_range.start)
__CPROVER_ensures(argc >= 1 && argc <= 3)
__CPROVER_ensures(g_mm < (size_t)NEWT->length ==> NEWT->data[g_mm].u64 == g_view.items[g_range.start + g_mm].u64)
;
void h_tuple_slice(void) { Janet *argv = mk_args(); cfun_tuple_slice(g_argc, argv); REACH("tuple/slice returns");
  if (g_range.start > 0 && g_range.end < g_view.len && NEWT->length > 1) REACH("tuple/slice returns a proper slice"); }

/* ---- (tuple/type tup): :brackets iff the tuple carries the bracket flag, else :parens; tuple unchanged */
#define LIT8(p, a, b, c, d, e, f, g, h) ((p)[0] == a && (p)[1] == b && (p)[2] == c && (p)[3] == d && (p)[4] == e && (p)[5] == f && (p)[6] == g && (p)[7] == h)
#define IS_BRACKETS(p) (LIT8(p, 'b', 'r', 'a', 'c', 'k', 'e', 't', 's') && (p)[8] == 0)
#define IS_PARENS(p) ((p)[0] == 'p' && (p)[1] == 'a' && (p)[2] == 'r' && (p)[3] == 'e' && (p)[4] == 'n' && (p)[5] == 's' && (p)[6] == 0)
#define TUP_PRE ARGS_PRE __CPROVER_requires(g_th->length >= 0 && __CPROVER_rw_ok(g_th, sizeof(JanetTupleHead) + (size_t)g_th->length * JSZ) && __CPROVER_r_ok(g_kwptr, 1)) \
  __CPROVER_requires(g_oldcount == g_th->length && g_flags0 == g_th->gc.flags)
static Janet cfun_tuple_type_c(int32_t argc, Janet *argv)
TUP_PRE __CPROVER_assigns(g_kwname)
__CPROVER_ensures(argc == 1 && __CPROVER_return_value.u64 == janet_wrap_keyword(g_kwptr).u64)
__CPROVER_ensures((g_flags0 & JANET_TUPLE_FLAG_BRACKETCTOR) ? IS_BRACKETS(g_kwname) : IS_PARENS(g_kwname))
;
void h_tuple_type(void) { Janet *argv = mk_args(); cfun_tuple_type(g_argc, argv); REACH("tuple/type returns");
  if (g_flags0 & JANET_TUPLE_FLAG_BRACKETCTOR) REACH("tuple/type returns :brackets"); else REACH("tuple/type returns :parens"); }

/* ---- (tuple/sourcemap tup): a NEW tuple (line column) of the tuple's source mapping */
int32_t g_line0, g_col0;
static Janet cfun_tuple_sourcemap_c(int32_t argc, Janet *argv)
TUP_PRE __CPROVER_requires(g_line0 == g_th->sm_line && g_col0 == g_th->sm_column)
NEW_FRAME RET_NEW_TUPLE(2)
__CPROVER_ensures(argc == 1)
__CPROVER_ensures(g_mm == 0 ==> NEWT->data[0].u64 == janet_wrap_integer(g_line0).u64)
__CPROVER_ensures(g_mm == 1 ==> NEWT->data[1].u64 == janet_wrap_integer(g_col0).u64)
;
void h_tuple_sourcemap(void) { Janet *argv = mk_args(); cfun_tuple_sourcemap(g_argc, argv); REACH("tuple/sourcemap returns"); }

/* ---- (tuple/setmap tup line column): stores line and column in the tuple's header, nothing else changes; returns tup */
static Janet cfun_tuple_setmap_c(int32_t argc, Janet *argv)
TUP_PRE __CPROVER_requires(g_hash0 == g_th->hash)
__CPROVER_assigns(g_th->sm_line, g_th->sm_column)
__CPROVER_ensures(argc == 3 && __CPROVER_return_value.u64 == argv[0].u64)
__CPROVER_ensures(g_th->sm_line == SLOT_INT(argv, 1) && g_th->sm_column == SLOT_INT(argv, 2) && g_th->length == g_oldcount && g_th->hash == g_hash0 && g_th->gc.flags == g_flags0)
;
void h_tuple_setmap(void) { Janet *argv = mk_args(); cfun_tuple_setmap(g_argc, argv); REACH("tuple/setmap returns"); }

/* ---- (tuple/join & parts): every part must be an array or tuple (else raises); a NEW tuple = part 0 ++ part 1 ++ ...,
 * length = sum of the lengths, raises instead of exceeding INT32_MAX. One unit per number of parts (LIB_NPARTS). */
#ifndef LIB_NPARTS
#define LIB_NPARTS 0
#endif
#define P_LEN(k) ((int64_t)((k) < argc ? g_pv[k].len : 0))
static Janet cfun_tuple_join_c(int32_t argc, Janet *argv)
ARGS_PRE
__CPROVER_requires(argc == LIB_NPARTS && VIEW_OK(g_pv[0]) && VIEW_OK(g_pv[1]))
NEW_FRAME RET_NEW_TUPLE(P_LEN(0) + P_LEN(1))
__CPROVER_ensures((argc > 0 ==> g_pok[0]) && (argc > 1 ==> g_pok[1]) && P_LEN(0) + P_LEN(1) <= INT32_MAX)
__CPROVER_ensures((argc > 0 && g_mm < (size_t)g_pv[0].len) ==> NEWT->data[g_mm].u64 == g_pv[0].items[g_mm].u64)
__CPROVER_ensures((argc > 1 && g_mm < (size_t)g_pv[1].len) ==> NEWT->data[(size_t)g_pv[0].len + g_mm].u64 == g_pv[1].items[g_mm].u64)
;
void h_tuple_join(void) {
  Janet *argv = mk_args();
  for (int k = 0; k < LIB_MAXPARTS; k++) { g_pok[k] = nd_int() ? 1 : 0; mk_view(&g_pv[k]); }
  if (g_argc > 1 && argv[0].u64 == argv[1].u64) __CPROVER_assume(g_pok[0] == g_pok[1] && g_pv[0].items == g_pv[1].items && g_pv[0].len == g_pv[1].len);
  cfun_tuple_join(g_argc, argv);
  REACH("tuple/join returns");
#if LIB_NPARTS == 2
  if (g_pv[0].len > 1 && g_pv[1].len > 1) REACH("tuple/join returns two non-trivial parts joined");
  if (g_pv[0].len == 0 && g_pv[1].len == 0) REACH("tuple/join returns the empty tuple for two empty parts");
#endif
}
