/* C01: janet_sweep, WEAK heap (janet_vm.weak_blocks): weak arrays and weak tables drop exactly the entries whose referent was
 * not marked, and they do so BEFORE any referent is freed - no dangling pointer survives a sweep.
 *
 * Heap of the harness (JANET_NO_NANBOX configuration: pointer <-> Janet packing is opaque to CBMC otherwise):
 *   main heap   R0 -> R1          two referent blocks with arbitrary flag words;
 *   weak heap   W0 [-> W1]        one or two weak containers (kind chosen per unit with -DWK0 / -DWK1: 'A' weak array, 'T' weak
 *                                 table of arbitrary weak mode k / v / kv), each with NS = 2 slots and an arbitrary flag word.
 * Every slot holds an arbitrary value: an immediate (number, nil, boolean, cfunction, pointer), or a reference to R0 / R1 in
 * ANY of the reference shapes of janet_check_liveref (array, table, function, buffer, fiber: the block itself; string, symbol,
 * keyword, tuple, struct, abstract: a pointer to the data behind the block's head), or a reference to W0 / W1 (also to itself).
 * janet_deinit_block / free are recording stubs; the stub of free really deallocates, so reading the mark bit of a referent
 * after it was freed is a pointer-check failure (ordering obligation).
 *
 * Obligations:
 *   weak array (survivor)  element i < count: nil afterwards iff its referent was not marked, otherwise bit-for-bit unchanged;
 *                          elements >= count, count, data pointer unchanged;
 *   weak table (survivor)  bucket dropped iff (weak keys and key's referent unmarked) or (weak values and value's referent
 *                          unmarked); a dropped bucket is a tombstone (nil, false), count-1, deleted+1; others unchanged;
 *   no entry of a surviving container refers to a freed block; unmarked containers are finalised and freed exactly once;
 *   main heap as in gc2.sweep.main; block_count = survivors of both heaps. */
#include "prelude.h"
void __CPROVER_deallocate(void *);
#define NR 2
#define NS 2
#ifndef WK0
#define WK0 'A'
#endif
#ifdef WK1
#define NW 2
#else
#define NW 1
#define WK1 'A'
#endif
#define NBLK (NR + NW)
#define WS(c, msg) __CPROVER_assert(c, "C01 weak: " msg)
typedef struct { JanetGCObject gc; uint64_t room[7]; } RefBlock;   /* room for the largest head (JanetStructHead: data at 40) */

void *g_b[NBLK]; int32_t g_f0[NBLK]; int g_deinit[NBLK], g_freed[NBLK], g_foreign;
/* ghost copy of every slot: type, pointer (references) or bits (immediates), referenced block (-1: immediate) */
#define NSLOT (2 * NS)                         /* array: slots 0..NS-1; table: key of bucket i = slot 2i, value = slot 2i+1 */
JanetType g_t[NW][NSLOT]; void *g_p[NW][NSLOT]; uint64_t g_u[NW][NSLOT]; int g_ref[NW][NSLOT];

void ww_deinit_stub(JanetGCObject *m) {
  int hit = 0;
  for (int k = 0; k < NBLK; k++) if ((void *) m == g_b[k]) { hit = 1; WS(g_freed[k] == 0, "a block is deinitialised while it is still allocated"); g_deinit[k]++; }
  if (!hit) g_foreign++;
}
void ww_free_stub(void *p) {
  int hit = 0;
  for (int k = 0; k < NBLK; k++) if (p == g_b[k]) { hit = 1; WS(g_deinit[k] == 1, "a block is deinitialised exactly once before it is freed"); g_freed[k]++; }
  if (!hit) g_foreign++; else __CPROVER_deallocate(p);
}

/* an arbitrary value for slot (w, s); nonnil: live table buckets have non-nil key and value */
static Janet mk_value(int w, int s, int nonnil) {
  Janet x; x.as.u64 = 0; x.type = JANET_NIL;
  int sel = nd_int();
  g_ref[w][s] = -1; g_p[w][s] = (void *) 0;
  if (sel == 0 || sel == 1) {                   /* reference to a main-heap block, any shape */
    int kind = nd_int(); char *base; if (sel == 0) base = (char *) g_b[0]; else base = (char *) g_b[1];
    void *p = base; JanetType t = JANET_ARRAY;
    if (kind == 1) t = JANET_TABLE; else if (kind == 2) t = JANET_FUNCTION; else if (kind == 3) t = JANET_BUFFER; else if (kind == 4) t = JANET_FIBER;
    else if (kind == 5) { t = JANET_STRING; p = base + offsetof(JanetStringHead, data); }
    else if (kind == 6) { t = JANET_SYMBOL; p = base + offsetof(JanetStringHead, data); }
    else if (kind == 7) { t = JANET_KEYWORD; p = base + offsetof(JanetStringHead, data); }
    else if (kind == 8) { t = JANET_TUPLE; p = base + offsetof(JanetTupleHead, data); }
    else if (kind == 9) { t = JANET_STRUCT; p = base + offsetof(JanetStructHead, data); }
    else if (kind == 10) { t = JANET_ABSTRACT; p = base + offsetof(JanetAbstractHead, data); }
    x.type = t; x.as.pointer = p; g_ref[w][s] = sel; g_p[w][s] = p;
  } else if (sel == 2) {                        /* reference to weak container 0 */
    x.type = (WK0 == 'A') ? JANET_ARRAY : JANET_TABLE; x.as.pointer = g_b[NR]; g_ref[w][s] = NR; g_p[w][s] = g_b[NR];
  } else if (sel == 3 && NW == 2) {             /* reference to weak container 1 */
    x.type = (WK1 == 'A') ? JANET_ARRAY : JANET_TABLE; x.as.pointer = g_b[NBLK - 1]; g_ref[w][s] = NBLK - 1; g_p[w][s] = g_b[NBLK - 1];
  } else {                                      /* immediate */
    int kind = nd_int();
    if (kind == 0) x.type = JANET_NUMBER; else if (kind == 1) x.type = JANET_BOOLEAN; else if (kind == 2) x.type = JANET_CFUNCTION;
    else if (kind == 3) x.type = JANET_POINTER; else x.type = nonnil ? JANET_NUMBER : JANET_NIL;
    x.as.u64 = (x.type == JANET_NIL) ? 0 : nd_u64();
  }
  g_t[w][s] = x.type; g_u[w][s] = (g_ref[w][s] < 0) ? x.as.u64 : 0;
  return x;
}
static int same(Janet x, int w, int s) {
  if (x.type != g_t[w][s]) return 0;
  if (g_ref[w][s] >= 0) return x.as.pointer == g_p[w][s];
  return x.as.u64 == g_u[w][s];
}
/* was the referent of slot (w, s) marked in the mark phase (immediates are always live) */
static int live(int w, int s) { int r = g_ref[w][s]; if (r < 0) return 1; return (g_f0[r] & JANET_MEM_REACHABLE) != 0; }
static int dangling(int w, int s) { int r = g_ref[w][s]; if (r < 0) return 0; return g_freed[r] != 0; }

/* ---- weak array ---- */
Janet *g_adata[NW]; int32_t g_acount[NW];
static void *mk_weak_array(int w) {
  JanetArray *a = malloc(sizeof(JanetArray));
  a->data = malloc(NS * sizeof(Janet)); a->capacity = NS; a->count = nd_i32(); __CPROVER_assume(a->count >= 0 && a->count <= NS);
  g_adata[w] = a->data; g_acount[w] = a->count;
  return a;
}
static void fill_weak_array(int w) { JanetArray *a = g_b[NR + w]; for (int i = 0; i < NS; i++) a->data[i] = mk_value(w, i, 0); }
static void check_weak_array(int w) {
  JanetArray *a = g_b[NR + w];
  WS(a->data == g_adata[w] && a->count == g_acount[w] && a->capacity == NS, "weak array: count, capacity and storage are unchanged");
  for (int i = 0; i < NS; i++) {
    if (i < g_acount[w] && !live(w, i)) WS(a->data[i].type == JANET_NIL, "weak array: an element whose referent was not marked is replaced by nil");
    else WS(same(a->data[i], w, i), "weak array: an element whose referent was marked (or that holds no reference) is unchanged");
    WS(a->data[i].type == JANET_NIL || same(a->data[i], w, i), "weak array: elements are only ever cleared");
    if (same(a->data[i], w, i) && i < g_acount[w]) WS(!dangling(w, i), "weak array: no remaining element refers to a freed block");
  }
}
/* ---- weak table ---- */
JanetKV *g_tdata[NW]; int32_t g_tcount[NW], g_tdeleted[NW]; int g_tlive[NW][NS];
static void *mk_weak_table(int w) {
  JanetTable *t = malloc(sizeof(JanetTable));
  t->data = malloc(NS * sizeof(JanetKV)); t->capacity = NS; t->proto = (JanetTable *) 0; g_tdata[w] = t->data;
  return t;
}
static void fill_weak_table(int w) {
  JanetTable *t = g_b[NR + w]; int32_t c = 0, d = 0;
  for (int i = 0; i < NS; i++) {
    int st = nd_int();
    if (st == 0) {          /* live bucket */
      t->data[i].key = mk_value(w, 2 * i, 1); t->data[i].value = mk_value(w, 2 * i + 1, 1); c++; g_tlive[w][i] = 1;
    } else {                /* empty bucket (nil, nil) or tombstone (nil, false) */
      Janet k; k.type = JANET_NIL; k.as.u64 = 0; Janet v; v.as.u64 = 0; v.type = (st == 1) ? JANET_NIL : JANET_BOOLEAN;
      t->data[i].key = k; t->data[i].value = v; if (st != 1) d++; g_tlive[w][i] = 0;
      g_t[w][2 * i] = JANET_NIL; g_u[w][2 * i] = 0; g_ref[w][2 * i] = -1; g_p[w][2 * i] = (void *) 0;
      g_t[w][2 * i + 1] = v.type; g_u[w][2 * i + 1] = 0; g_ref[w][2 * i + 1] = -1; g_p[w][2 * i + 1] = (void *) 0;
    }
  }
  t->count = c; t->deleted = d; g_tcount[w] = c; g_tdeleted[w] = d;
}
static void check_weak_table(int w) {
  JanetTable *t = g_b[NR + w];
  int type = g_f0[NR + w] & JANET_MEM_TYPEBITS;
  int wk = (type == JANET_MEMORY_TABLE_WEAKK || type == JANET_MEMORY_TABLE_WEAKKV), wv = (type == JANET_MEMORY_TABLE_WEAKV || type == JANET_MEMORY_TABLE_WEAKKV);
  int32_t dropped = 0;
  WS(t->data == g_tdata[w] && t->capacity == NS && t->proto == (JanetTable *) 0, "weak table: storage, capacity and prototype are unchanged");
  for (int i = 0; i < NS; i++) {
    int drop = g_tlive[w][i] && ((wk && !live(w, 2 * i)) || (wv && !live(w, 2 * i + 1)));
    if (drop) {
      dropped++;
      WS(t->data[i].key.type == JANET_NIL && t->data[i].value.type == JANET_BOOLEAN && !(t->data[i].value.as.u64 & 1),
         "weak table: a bucket whose weakly held key / value was not marked becomes a tombstone (nil key, false value)");
    } else {
      WS(same(t->data[i].key, w, 2 * i) && same(t->data[i].value, w, 2 * i + 1), "weak table: every other bucket is unchanged (strongly held sides are never a reason to drop)");
      if (g_tlive[w][i] && wk) WS(!dangling(w, 2 * i), "weak table: no remaining weak key refers to a freed block");
      if (g_tlive[w][i] && wv) WS(!dangling(w, 2 * i + 1), "weak table: no remaining weak value refers to a freed block");
    }
  }
  WS(t->count == g_tcount[w] - dropped && t->deleted == g_tdeleted[w] + dropped, "weak table: count and deleted account for exactly the dropped buckets");
}

void h_sweep_weak(void) {
  for (int k = 0; k < NR; k++) { RefBlock *r = malloc(sizeof(RefBlock)); g_b[k] = r; }
  g_b[NR] = (WK0 == 'A') ? mk_weak_array(0) : mk_weak_table(0);
  if (NW == 2) g_b[NR + 1] = (WK1 == 'A') ? mk_weak_array(1) : mk_weak_table(1);
  for (int k = 0; k < NBLK; k++) { g_f0[k] = nd_i32(); g_deinit[k] = g_freed[k] = 0; }
  /* the weak heap holds exactly the weak container types (janet_gcalloc, unit gc2.gcalloc) */
  if (WK0 == 'A') g_f0[NR] = (g_f0[NR] & ~JANET_MEM_TYPEBITS) | JANET_MEMORY_ARRAY_WEAK;
  else { int ty = g_f0[NR] & JANET_MEM_TYPEBITS; __CPROVER_assume(ty == JANET_MEMORY_TABLE_WEAKK || ty == JANET_MEMORY_TABLE_WEAKV || ty == JANET_MEMORY_TABLE_WEAKKV); }
  if (NW == 2) {
    if (WK1 == 'A') g_f0[NR + 1] = (g_f0[NR + 1] & ~JANET_MEM_TYPEBITS) | JANET_MEMORY_ARRAY_WEAK;
    else { int ty = g_f0[NR + 1] & JANET_MEM_TYPEBITS; __CPROVER_assume(ty == JANET_MEMORY_TABLE_WEAKK || ty == JANET_MEMORY_TABLE_WEAKV || ty == JANET_MEMORY_TABLE_WEAKKV); }
  }
  for (int k = 0; k < NBLK; k++) ((JanetGCObject *) g_b[k])->flags = g_f0[k];
  ((JanetGCObject *) g_b[0])->data.next = (JanetGCObject *) g_b[1]; ((JanetGCObject *) g_b[1])->data.next = (JanetGCObject *) 0;
  ((JanetGCObject *) g_b[NR])->data.next = (NW == 2) ? (JanetGCObject *) g_b[NBLK - 1] : (JanetGCObject *) 0;
  if (NW == 2) ((JanetGCObject *) g_b[NR + 1])->data.next = (JanetGCObject *) 0;
  if (WK0 == 'A') fill_weak_array(0); else fill_weak_table(0);
  if (NW == 2) { if (WK1 == 'A') fill_weak_array(1); else fill_weak_table(1); }
  janet_vm.blocks = (JanetGCObject *) g_b[0]; janet_vm.weak_blocks = (JanetGCObject *) g_b[NR];
  janet_vm.threaded_abstracts.data = (JanetKV *) 0; janet_vm.threaded_abstracts.capacity = 0;
  janet_vm.block_count = NBLK; g_foreign = 0;

  janet_sweep();

  size_t surv = 0;
  for (int k = 0; k < NBLK; k++) {
    if (g_f0[k] & (JANET_MEM_REACHABLE | JANET_MEM_DISABLED)) {
      surv++;
      WS(g_deinit[k] == 0 && g_freed[k] == 0, "a marked (or collection-disabled) block of either heap is neither finalised nor freed");
      WS(((JanetGCObject *) g_b[k])->flags == (g_f0[k] & ~JANET_MEM_REACHABLE), "a survivor keeps its flag word with only the reachable bit cleared");
    } else WS(g_deinit[k] == 1 && g_freed[k] == 1, "an unmarked block of either heap is finalised exactly once and freed exactly once");
  }
  WS(janet_vm.block_count == surv && g_foreign == 0, "block_count is the number of survivors of both heaps; nothing else is freed");
  int s0 = (g_f0[NR] & (JANET_MEM_REACHABLE | JANET_MEM_DISABLED)) != 0;
  int s1 = NW == 2 && (g_f0[NBLK - 1] & (JANET_MEM_REACHABLE | JANET_MEM_DISABLED)) != 0;
  WS(janet_vm.weak_blocks == (s0 ? (JanetGCObject *) g_b[NR] : s1 ? (JanetGCObject *) g_b[NBLK - 1] : (JanetGCObject *) 0), "the weak list starts at its first survivor");
  if (s0) {
    WS(((JanetGCObject *) g_b[NR])->data.next == (s1 ? (JanetGCObject *) g_b[NBLK - 1] : (JanetGCObject *) 0), "weak survivors stay linked in order");
    if (WK0 == 'A') check_weak_array(0); else check_weak_table(0);
  }
  if (s1) {
    WS(((JanetGCObject *) g_b[NBLK - 1])->data.next == (JanetGCObject *) 0, "the weak list ends after the last survivor");
    if (WK1 == 'A') check_weak_array(1); else check_weak_table(1);
  }
  if (s0 && g_ref[0][0] == 0 && g_freed[0] && (WK0 == 'A' ? g_acount[0] > 0 : g_tlive[0][0])) REACH("weak: the referent of a surviving container's first slot is freed by this sweep");
  if (s0 && g_ref[0][1] == 1 && !g_freed[1] && (g_f0[1] & JANET_MEM_REACHABLE)) REACH("weak: a marked referent");
#if NW == 2
  if (s0 && !s1 && g_ref[0][0] == NBLK - 1) REACH("weak: a surviving container refers to a weak container that is freed");
#endif
  REACH("janet_sweep returns");
}
