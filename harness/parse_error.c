/* C11: "the values produced depend only on the bytes, not on how they are chunked": janet_parser_error (parse.c) is the
 * query a driver may make after every chunk. Contract: it is a pure query unless the parser IS in the error state - then it
 * hands out the message once, clears the error (and the generated-message ownership flag) and flushes the half-read form so
 * parsing can go on. In every other state (root, pending values, in the middle of a form / string / token, dead) it returns
 * NULL and changes NOTHING: polling must not lose the form being read. */
#include "prelude.h"
static JanetParser pq_p; static JanetParseState pq_states[3];
void h_parser_error(void) {
  pq_p.states = pq_states; pq_p.statecount = nd_size(); __CPROVER_assume(pq_p.statecount >= 1 && pq_p.statecount <= 3);
  pq_p.argcount = nd_size(); pq_p.bufcount = nd_size(); pq_p.pending = nd_size(); pq_p.flag = nd_int();
  pq_states[0].argn = nd_i32();
  int has_error = nd_int() & 1; static const char msg[4] = "err";
  pq_p.error = has_error ? msg : (const char *)0;
  JanetParser before = pq_p; int32_t argn0 = pq_states[0].argn;
  const char *r = janet_parser_error(&pq_p);
  if (has_error) {
    __CPROVER_assert(r == msg && pq_p.error == (const char *)0, "parse.error: the message is handed out once and the error state is left");
    __CPROVER_assert(!(pq_p.flag & JANET_PARSER_GENERATED_ERROR) && ((pq_p.flag ^ before.flag) & ~JANET_PARSER_GENERATED_ERROR) == 0, "parse.error: ownership of a generated message passes to the caller, no other flag changes");
    __CPROVER_assert(pq_p.statecount == 1 && pq_p.argcount == 0 && pq_p.bufcount == 0 && pq_p.pending == 0 && pq_states[0].argn == 0, "parse.error: the broken form is discarded, the parser is back at the root");
    REACH("parser/error in the error state");
  } else {
    __CPROVER_assert(r == (const char *)0, "parse.error: no message outside the error state");
    __CPROVER_assert(pq_p.statecount == before.statecount && pq_p.argcount == before.argcount && pq_p.bufcount == before.bufcount && pq_p.pending == before.pending &&
                     pq_p.flag == before.flag && pq_p.error == before.error && pq_states[0].argn == argn0,
                     "parse.error: outside the error state the query changes nothing (the form being read and the pending values are kept)");
    REACH("parser/error polled without an error");
  }
}
