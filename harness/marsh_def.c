/* C10: unmarshal_one_def (marsh.c) computes several allocation sizes from untrusted counts. For ANY values delivered by the
 * integer readers: no signed overflow in that arithmetic, and every allocation request is the size of a non-negative number of
 * elements that fits 32 bits (a negative count converted to size_t asks for ~2^64 bytes and takes the process down with
 * "out of memory" instead of raising a catchable error). readint/readnat under their proved contracts (any int32 / any
 * int32 >= 0), value readers as stubs. */
#include "prelude.h"
#include <stdlib.h>
int32_t readint_stub(UnmarshalState *st, const uint8_t **atdata) { return nd_i32(); }
int32_t readnat_stub(UnmarshalState *st, const uint8_t **atdata) { int32_t v = nd_i32(); __CPROVER_assume(v >= 0); return v; }
const uint8_t *um_one_stub(UnmarshalState *st, const uint8_t *data, Janet *out, int flags) { return data; }
const uint8_t *um_def_stub(UnmarshalState *st, const uint8_t *data, JanetFuncDef **out, int flags) { return data; }
const uint8_t *u32s_stub(UnmarshalState *st, const uint8_t *data, uint32_t *into, int32_t n) { __CPROVER_assert(n >= 0, "C10 funcdef image: element count handed to the word reader is not negative"); return data; }
static void *alloc_contract(size_t size) {
  __CPROVER_assert(size <= (size_t) 0x7fffffff * 32, "C10 funcdef image: every allocation size is that of a non-negative 31-bit element count (no negative count converted to size_t)");
  static char block[64]; return block;
}
void *malloc_stub(size_t size) { return alloc_contract(size); }
void *calloc_stub(size_t n, size_t size) { __CPROVER_assert(n == 1, "calloc(1, size)"); return alloc_contract(size); }
void *gcalloc_stub(enum JanetMemoryType type, size_t size) { static JanetFuncDef d; return &d; }
int verify_stub(JanetFuncDef *def) { return nd_int(); }
void asserttype_stub(Janet x, JanetType t, UnmarshalState *st) { }
int32_t g_vraw[2 + 2 * 8];
void h_unmarshal_def(void) {
  UnmarshalState st; uint8_t bytes[4]; bytes[0] = 0; JanetFuncDef *out = 0;
  g_vraw[0] = 8; g_vraw[1] = 0; st.lookup_defs = (JanetFuncDef **)(g_vraw + 2);
  st.start = bytes; st.end = bytes + 4;
  unmarshal_one_def(&st, bytes, &out, nd_int() & 0xFF);
  REACH("unmarshal_one_def accepts a definition");
}

