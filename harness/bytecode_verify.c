/* C10: janet_verify - acceptance implies every operand is in range, for bytecode of ANY length (ghost index g_idx) */
#include "prelude.h"
#include "bytecode_verify.h"
uint32_t g_idx;
const int g_JOP_INSTRUCTION_COUNT = JOP_INSTRUCTION_COUNT;
const int g_JINT_0 = JINT_0;
const int g_JINT_S = JINT_S;
const int g_JINT_L = JINT_L;
const int g_JINT_SS = JINT_SS;
const int g_JINT_SL = JINT_SL;
const int g_JINT_ST = JINT_ST;
const int g_JINT_SI = JINT_SI;
const int g_JINT_SD = JINT_SD;
const int g_JINT_SU = JINT_SU;
const int g_JINT_SSS = JINT_SSS;
const int g_JINT_SSI = JINT_SSI;
const int g_JINT_SSU = JINT_SSU;
const int g_JINT_SES = JINT_SES;
const int g_JINT_SC = JINT_SC;

void __vc_pin_tables(void);
int janet_verify_c(JanetFuncDef *def)
__CPROVER_requires(__CPROVER_is_fresh(def, sizeof(*def)))
__CPROVER_requires(def->bytecode_length >= 0 && def->bytecode_length <= 0x1FFFFFFF)
__CPROVER_requires(__CPROVER_is_fresh(def->bytecode, (size_t)def->bytecode_length * sizeof(uint32_t)))
__CPROVER_assigns()
/* per-instruction operand ranges, for the ghost-selected pc */
__CPROVER_ensures((__CPROVER_return_value == 0 && g_idx < (uint32_t)def->bytecode_length) ==> INSTR_OK(def, def->bytecode[g_idx], (int32_t)g_idx))
__CPROVER_ensures(__CPROVER_return_value == 0 ==> def->bytecode_length > 0)
/* execution cannot run off the end: the last instruction is terminal */
__CPROVER_ensures(__CPROVER_return_value == 0 ==> ((def->bytecode[def->bytecode_length - 1] & 0xFF) == JOP_RETURN || (def->bytecode[def->bytecode_length - 1] & 0xFF) == JOP_RETURN_NIL ||
    (def->bytecode[def->bytecode_length - 1] & 0xFF) == JOP_JUMP || (def->bytecode[def->bytecode_length - 1] & 0xFF) == JOP_ERROR || (def->bytecode[def->bytecode_length - 1] & 0xFF) == JOP_TAILCALL))
/* from the property (a verified function can be CALLED with arbitrary arguments): the frame layout numbers are sane */
__CPROVER_ensures(__CPROVER_return_value == 0 ==> (def->slotcount >= 0 && def->slotcount <= 0x1000000))
__CPROVER_ensures(__CPROVER_return_value == 0 ==> (def->arity >= 0 && (int64_t)def->arity + ((def->flags & JANET_FUNCDEF_FLAG_VARARG) ? 1 : 0) <= (int64_t)def->slotcount))
;
void h_verify(void) { __vc_pin_tables(); JanetFuncDef *d; janet_verify(d); REACH("janet_verify returns"); }
