/* C04 (C level): the registered C functions of table.c - table/new, table/weak, table/weak-keys, table/weak-values,
 * table/getproto, table/setproto, table/rawget, table/clear, table/clone - plain mode. The map operations themselves
 * (janet_table_rawget, janet_table_clear) are proved in units tab.rawget.* / tab.clear.* and replaced here by recording
 * stubs of their signatures; janet_table_clone, janet_table (janet_table_init_impl, janet_tablen) are the real bodies.
 * Trusted stubs: capi.c getters (janet_gettable -> slot 0: g_tab, slot 1: g_ptab; janet_getnat -> low 32 bits of the slot,
 * returns only when >= 0; each asserts slot index < argc), janet_gcalloc (fresh block, type recorded),
 * janet_memalloc_empty (wrap.c; contract: count > 0 asserted, fresh block of count buckets, every bucket (nil, nil) -
 * pointwise at the ghost index), memcpy (pointwise bucket copy model, ranges valid and disjoint asserted). */
#include "prelude.h"
#include <stdlib.h>
#define L_NULL ((void *)0)
/* value comparison independent of the value representation. These units run with nanbox: false (tagged-struct Janet):
 * a nanboxed reference loses CBMC's object number when the tag bits are or-ed in, so that "returns THIS object" could only
 * be compared modulo the offset; with the tagged representation the pointer itself is compared. */
#ifdef JANET_NANBOX_64
#define JU64(x) ((x).u64)
#define SAME(a, b) ((a).u64 == (b).u64)
#else
#define JU64(x) ((x).as.u64)
#define SAME(a, b) ((a).type == (b).type && (a).as.u64 == (b).as.u64)
#endif
#define IS_REF(r, t, p) (janet_checktype((r), (t)) && janet_unwrap_pointer(r) == (void *)(p))
Janet nd_janet(void);
int32_t g_argc, g_idx;
JanetTable *g_tab, *g_ptab;
void *g_new; enum JanetMemoryType g_new_type; int g_allocs;
#define SLOT_OK(n) __CPROVER_assert((n) >= 0 && (n) < g_argc, "argument slot index below argc")
#define SLOT_INT(argv, n) ((int32_t)((int64_t)(JU64((argv)[n]) & 0xFFFFFFFFull) - ((JU64((argv)[n]) & 0x80000000ull) ? 0x100000000ll : 0ll)))
void janet_fixarity(int32_t argc, int32_t fix) { __CPROVER_assume(argc == fix); }
void janet_arity(int32_t argc, int32_t min, int32_t max) { __CPROVER_assume(argc >= min && (max < 0 || argc <= max)); }
int32_t janet_getnat(const Janet *argv, int32_t n) { SLOT_OK(n); __CPROVER_assume(SLOT_INT(argv, n) >= 0); return SLOT_INT(argv, n); }
JanetTable *janet_gettable(const Janet *argv, int32_t n) { SLOT_OK(n); __CPROVER_assert(n == 0 || n == 1, "table requested for slot 0 or 1"); return n == 0 ? g_tab : g_ptab; }
void *janet_gcalloc(enum JanetMemoryType type, size_t size) {
  void *p = malloc(size);
  __CPROVER_assume(p != L_NULL);
  g_new = p; g_new_type = type; g_allocs++;
  __CPROVER_assert(size == sizeof(JanetTable), "a table object is allocated");
  return p;
}
JanetKV *g_empty; int32_t g_empty_count;
void *janet_memalloc_empty_stub(int32_t count) {
  __CPROVER_assert(count > 0, "janet_memalloc_empty precondition: count > 0");
  JanetKV *p = malloc((size_t)count * sizeof(JanetKV));
  __CPROVER_assume(p != L_NULL);
  if (g_idx >= 0 && g_idx < count) { p[g_idx].key = janet_wrap_nil(); p[g_idx].value = janet_wrap_nil(); }
  g_empty = p; g_empty_count = count;
  return p;
}
void *memcpy(void *d, const void *s, size_t n) {
  size_t k = n / sizeof(JanetKV);
  __CPROVER_assert(k * sizeof(JanetKV) == n, "memcpy model: whole buckets");
  __CPROVER_assert(n == 0 || __CPROVER_r_ok(s, n), "memcpy model: source range readable");
  __CPROVER_assert(n == 0 || __CPROVER_w_ok(d, n), "memcpy model: destination range writable");
  __CPROVER_assert(n == 0 || !__CPROVER_same_object(d, s), "memcpy model: ranges do not overlap");
  if (n > 0 && g_idx >= 0 && (size_t)g_idx < k) ((JanetKV *)d)[g_idx] = ((const JanetKV *)s)[g_idx];
  return d;
}
/* recording stubs for the proved map operations */
int g_calls; JanetTable *g_call_t; Janet g_call_key, g_ret;
Janet janet_table_rawget_stub(JanetTable *t, Janet key) { g_calls++; g_call_t = t; g_call_key = key; return g_ret; }
void janet_table_clear_stub(JanetTable *t) { g_calls++; g_call_t = t; }

static JanetTable *mk_table(void) {
  JanetTable *t = malloc(sizeof(JanetTable));
  __CPROVER_assume(t != L_NULL && t->capacity >= 0);
  if (t->capacity > 0) { t->data = malloc((size_t)t->capacity * sizeof(JanetKV)); __CPROVER_assume(t->data != L_NULL); } else t->data = L_NULL;
  return t;
}
static Janet *mk_args(void) {
  g_argc = nd_i32();
  __CPROVER_assume(g_argc >= 0 && g_argc <= 4);
  Janet *argv = malloc((size_t)g_argc * sizeof(Janet));
  __CPROVER_assume(argv != L_NULL);
  g_tab = mk_table(); g_ptab = mk_table();
  g_idx = nd_i32(); g_calls = 0; g_allocs = 0; g_ret = nd_janet(); g_new = L_NULL;
  return argv;
}
#define NEWTAB ((JanetTable *)g_new)

/* ---- (table/new capacity) and the weak variants: capacity >= 0 (else raises); a NEW empty table without prototype whose
 * bucket array has janet_tablen(capacity) = the smallest power of two above capacity buckets, all empty */
#ifndef LIB_TABLE_ANY_CAP
/* domain restriction: janet_tablen computes n + 1 for n = 2^31 - 1 when capacity >= 2^30 (signed overflow; unit
 * lib.table.new.huge keeps the obligation) */
#define CAP_DOMAIN(argv) (g_argc < 1 || SLOT_INT(argv, 0) < 1073741824)
#else
#define CAP_DOMAIN(argv) 1
#endif
#define H_NEW(fn, lisp, memtype) \
void h_##fn(void) { \
  Janet *argv = mk_args(); \
  __CPROVER_assume(CAP_DOMAIN(argv)); \
  Janet r = cfun_##fn(g_argc, argv); \
  REACH(lisp " returns"); \
  int32_t cap = SLOT_INT(argv, 0); \
  __CPROVER_assert(g_argc == 1 && cap >= 0, "C04: " lisp " returns only for arity 1 and a non-negative capacity"); \
  __CPROVER_assert(g_allocs == 1 && g_new_type == memtype && IS_REF(r, JANET_TABLE, NEWTAB), "C04: " lisp " returns a new table object of its kind"); \
  __CPROVER_assert(NEWTAB->count == 0 && NEWTAB->deleted == 0 && NEWTAB->proto == L_NULL, "C04: the new table is empty and has no prototype"); \
  int32_t c = NEWTAB->capacity; \
  __CPROVER_assert(c > cap && (c & (c - 1)) == 0 && c / 2 <= cap, "C04: the bucket count is the smallest power of two above the requested capacity"); \
  __CPROVER_assert(NEWTAB->data == g_empty && g_empty_count == c, "C04: the bucket array has exactly capacity buckets"); \
  if (g_idx >= 0 && g_idx < c) __CPROVER_assert(janet_checktype(NEWTAB->data[g_idx].key, JANET_NIL) && janet_checktype(NEWTAB->data[g_idx].value, JANET_NIL), "C04: every bucket of the new table is empty"); \
  if (cap > 5) REACH(lisp " returns for a capacity above five"); \
}
H_NEW(table_new, "table/new", JANET_MEMORY_TABLE)
H_NEW(table_weak, "table/weak", JANET_MEMORY_TABLE_WEAKKV)
H_NEW(table_weak_keys, "table/weak-keys", JANET_MEMORY_TABLE_WEAKK)
H_NEW(table_weak_values, "table/weak-values", JANET_MEMORY_TABLE_WEAKV)

/* ---- (table/getproto tab): the prototype table, nil if there is none; (table/setproto tab proto): sets it (nil clears
 * it), returns tab; nothing else of either table changes */
void h_table_getproto(void) {
  Janet *argv = mk_args();
  JanetTable before = *g_tab;
  Janet r = cfun_table_getproto(g_argc, argv);
  REACH("table/getproto returns");
  __CPROVER_assert(g_argc == 1, "C04: table/getproto has arity 1");
  __CPROVER_assert((before.proto ? IS_REF(r, JANET_TABLE, before.proto) : janet_checktype(r, JANET_NIL)), "C04: table/getproto returns the prototype or nil");
  __CPROVER_assert(g_tab->proto == before.proto && g_tab->count == before.count && g_tab->data == before.data, "C04: table/getproto does not modify the table");
  if (before.proto) REACH("table/getproto returns a table");
}
void h_table_setproto(void) {
  Janet *argv = mk_args();
  JanetTable before = *g_tab, pbefore = *g_ptab;
  Janet r = cfun_table_setproto(g_argc, argv);
  REACH("table/setproto returns");
  __CPROVER_assert(g_argc == 2 && SAME(r, argv[0]), "C04: table/setproto has arity 2 and returns tab");
  __CPROVER_assert(g_tab->proto == (janet_checktype(argv[1], JANET_NIL) ? (JanetTable *)L_NULL : g_ptab), "C04: table/setproto stores the given table, nil clears the prototype");
  __CPROVER_assert(g_tab->count == before.count && g_tab->capacity == before.capacity && g_tab->deleted == before.deleted && g_tab->data == before.data, "C04: table/setproto changes nothing but the prototype link");
  __CPROVER_assert(g_ptab->proto == pbefore.proto && g_ptab->count == pbefore.count && g_ptab->data == pbefore.data, "C04: table/setproto does not modify the prototype table");
  if (g_tab->proto == g_ptab) REACH("table/setproto returns after linking a table");
}
/* ---- (table/rawget tab key): janet_table_rawget(tab, key) - no prototype lookup; (table/clear tab): janet_table_clear */
void h_table_rawget(void) {
  Janet *argv = mk_args();
  Janet r = cfun_table_rawget(g_argc, argv);
  REACH("table/rawget returns");
  __CPROVER_assert(g_argc == 2 && g_calls == 1 && g_call_t == g_tab && SAME(g_call_key, argv[1]) && SAME(r, g_ret), "C04: table/rawget (arity 2) returns the raw lookup of key in tab itself");
}
void h_table_clear(void) {
  Janet *argv = mk_args();
  Janet r = cfun_table_clear(g_argc, argv);
  REACH("table/clear returns");
  __CPROVER_assert(g_argc == 1 && g_calls == 1 && g_call_t == g_tab && IS_REF(r, JANET_TABLE, g_tab), "C04: table/clear (arity 1) clears tab and returns it");
}
/* ---- (table/clone tab): "Create a copy of a table. Updates to the new table will not change the old table, and vice
 * versa": a NEW table object with the same count / capacity / deleted / prototype and a bucket array of its own holding
 * the same buckets; the source is not modified */
void h_table_clone(void) {
  Janet *argv = mk_args();
  JanetTable before = *g_tab;
  JanetKV b0; int have = 0;
  if (g_idx >= 0 && g_idx < g_tab->capacity) { b0 = g_tab->data[g_idx]; have = 1; }
  Janet r = cfun_table_clone(g_argc, argv);
  REACH("table/clone returns");
  __CPROVER_assert(g_argc == 1 && g_allocs == 1 && g_new_type == JANET_MEMORY_TABLE && IS_REF(r, JANET_TABLE, NEWTAB) && NEWTAB != g_tab, "C04: table/clone (arity 1) returns a new table object");
  __CPROVER_assert(NEWTAB->count == before.count && NEWTAB->capacity == before.capacity && NEWTAB->deleted == before.deleted && NEWTAB->proto == before.proto, "C04: the clone has the same counts and the same prototype");
  __CPROVER_assert(before.capacity == 0 || (!__CPROVER_same_object(NEWTAB->data, before.data) && __CPROVER_rw_ok(NEWTAB->data, (size_t)before.capacity * sizeof(JanetKV))), "C04: the clone has a bucket array of its own with room for capacity buckets");
  if (have) {
    __CPROVER_assert(SAME(NEWTAB->data[g_idx].key, b0.key) && SAME(NEWTAB->data[g_idx].value, b0.value), "C04: every bucket of the clone equals the bucket of the source");
    __CPROVER_assert(SAME(g_tab->data[g_idx].key, b0.key) && SAME(g_tab->data[g_idx].value, b0.value), "C04: table/clone does not modify the source buckets");
  }
  __CPROVER_assert(g_tab->count == before.count && g_tab->capacity == before.capacity && g_tab->deleted == before.deleted && g_tab->proto == before.proto && g_tab->data == before.data, "C04: table/clone does not modify the source table");
  if (before.capacity > 2) REACH("table/clone returns for a table with more than two buckets");
  if (before.capacity == 0) REACH("table/clone returns for a table without bucket array");
}
