/* C05: (signal what x) - janet_core_signal (corelib.c): "a signal is delivered to the nearest enclosing fiber whose mask accepts
 * it" starts with raising the RIGHT signal: an integer 0..9 raises user signal 0..9 (all ten of them), a keyword raises the signal
 * of that name; the payload is the second argument or nil; anything else raises an error; the function never returns. */
#include "prelude.h"
static int cs_sig, cs_calls; static uint64_t cs_payload; static int cs_ptype;
static int cs_expect_valid, cs_expect_sig, cs_expect_ptype; static uint64_t cs_expect_payload;
void cs_signalv_stub(JanetSignal s, Janet m) { cs_sig = (int) s; cs_payload = m.as.u64; cs_ptype = m.type; cs_calls++;
  __CPROVER_assert(cs_expect_valid, "signal: a signal is raised only for a valid signal number or name");
  __CPROVER_assert((int) s == cs_expect_sig, "signal: integer n raises user signal n (0..9), a keyword the signal of that name");
  __CPROVER_assert(cs_expect_ptype == (int) m.type && (m.type == JANET_NIL || m.as.u64 == cs_expect_payload), "signal: the payload is the second argument, nil when absent");
  REACH("signal raised");
  __CPROVER_assume(0); }
void cs_panicf_stub(const char *fmt, ...) { __CPROVER_assert(!cs_expect_valid, "signal: an error is raised only for an invalid signal number or unknown name"); REACH("signal refused"); __CPROVER_assume(0); }
void cs_arity_stub(int32_t argc, int32_t lo, int32_t hi) { __CPROVER_assume(argc >= lo && argc <= hi); }
void h_core_signal(void) {
  int32_t argc = nd_i32(); __CPROVER_assume(argc >= 1 && argc <= 2);
  Janet argv[2]; int32_t s = nd_i32();
  argv[0].type = JANET_NUMBER; argv[0].as.number = (double) s;
  argv[1].type = JANET_NUMBER; argv[1].as.u64 = nd_u64();
  cs_expect_valid = s >= 0 && s <= 9; cs_expect_sig = cs_expect_valid ? JANET_SIGNAL_USER0 + s : -1;
  cs_expect_ptype = argc == 2 ? JANET_NUMBER : JANET_NIL; cs_expect_payload = argv[1].as.u64;
  if (s == 9) REACH("user signal 9 requested");
  janet_core_signal(argc, argv);
  __CPROVER_assert(0, "signal: does not return");
}
