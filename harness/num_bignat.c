/* C13: memory safety and carry arithmetic of the bignum used for mantissas (strtod.c, struct BigNat, base 2^31 digits).
 *
 * wf_bignat(m): 0 <= n <= cap <= NUM_CAPMAX, digits points to cap uint32 when cap > 0. (The callers bound the digit
 * count: janet_scan_number_base refuses len > INT32_MAX/40 and appends at most one digit per input byte, convert() only
 * runs for |exponent2| <= ~1200; NUM_CAPMAX = 2^28 is far above that and keeps 2*(n+extra) inside int32.)
 *
 * bignat_muladd (loop closed by a loop contract, any n): every digits[i] access is in range, the carry never exceeds
 * 2*factor+2 (so carry + digit*factor cannot wrap 64 bits and the final carry fits a digit), every digit written is
 * < 2^31 (ghost index g_idx: "for all i < n" afterwards), and the digit handed to bignat_append is < 2^31.
 * bignat_append is replaced there by its contract; bignat_extra / bignat_append are proved separately against realloc's
 * contract.
 */
#include "prelude.h"

#ifndef NUM_CAPMAX
#define NUM_CAPMAX (1 << 28)
#endif
#define NUM_FACTOR_MAX (36u * 36u * 36u * 36u)

int32_t g_idx;      /* ghost index: an arbitrary digit position */
int32_t g_n0;       /* ghost: digit count at entry */

#define WF_BIGNAT(m) ((m)->n >= 0 && (m)->n <= (m)->cap && (m)->cap <= NUM_CAPMAX)

static void bignat_append_c(struct BigNat *mant, uint32_t dig)
__CPROVER_requires(WF_BIGNAT(mant))
__CPROVER_requires(dig < BIGNAT_BASE)                 /* digit bound preserved: checked at the call site in bignat_muladd */
__CPROVER_assigns(mant->n, mant->cap, mant->digits)
__CPROVER_ensures(mant->n == __CPROVER_old(mant->n) + 1)
;

static void bignat_muladd_c(struct BigNat *mant, uint32_t factor, uint32_t term)
__CPROVER_requires(__CPROVER_is_fresh(mant, sizeof(*mant)))
__CPROVER_requires(WF_BIGNAT(mant) && mant->n == g_n0)
__CPROVER_requires(mant->cap > 0 ==> __CPROVER_is_fresh(mant->digits, (size_t) mant->cap * sizeof(uint32_t)))
__CPROVER_requires(mant->cap == 0 ==> mant->digits == NULL)
__CPROVER_requires(mant->first_digit < BIGNAT_BASE)
__CPROVER_requires(factor >= 2 && factor <= NUM_FACTOR_MAX && term <= 36)
__CPROVER_assigns(mant->first_digit, mant->n, mant->cap, mant->digits)
__CPROVER_assigns(mant->cap > 0: __CPROVER_object_whole(mant->digits))
__CPROVER_ensures(mant->first_digit < BIGNAT_BASE)
__CPROVER_ensures(mant->n == g_n0 || mant->n == g_n0 + 1)
/* every digit is < 2^31 afterwards (ghost index = any position; stated for the no-append case, the appended digit's bound is
 * bignat_append_c's precondition) */
__CPROVER_ensures((mant->n == g_n0 && 0 <= g_idx && g_idx < g_n0) ==> mant->digits[g_idx] < BIGNAT_BASE)
;

void h_bignat_muladd(void) {
  struct BigNat *m; uint32_t f, t;
  bignat_muladd(m, f, t);
  REACH("bignat_muladd returns");
}
