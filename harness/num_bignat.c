/* C13: memory safety and carry arithmetic of the bignum used for mantissas (strtod.c, struct BigNat, base 2^31 digits).
 *
 * wf_bignat(m): 0 <= n <= cap <= NUM_CAPMAX, digits points to cap uint32 when cap > 0. (The callers bound the digit
 * count: janet_scan_number_base refuses len > INT32_MAX/40 and appends at most one digit per input byte, convert() only
 * runs for |exponent2| <= ~1200; NUM_CAPMAX = 2^28 is far above that and keeps 2*(n+extra) inside int32.)
 *
 * bignat_muladd (loop closed by a loop contract, any n): every digits[i] access is in range, the carry never exceeds
 * 2*factor+2 (so carry + digit*factor cannot wrap 64 bits and the final carry fits a digit), every digit written is
 * < 2^31 (ghost index g_idx: "for all i < n" afterwards), and the digit handed to bignat_append is < 2^31.
 * bignat_append is replaced there by its contract; bignat_extra / bignat_append are proved separately against realloc's
 * contract.
 */
#include "prelude.h"

#ifndef NUM_CAPMAX
#define NUM_CAPMAX (1 << 28)
#endif
#define NUM_FACTOR_MAX (36u * 36u * 36u * 36u)

int32_t g_idx;      /* ghost index: an arbitrary digit position */
int32_t g_n0;       /* ghost: digit count at entry */

#define WF_BIGNAT(m) ((m)->n >= 0 && (m)->n <= (m)->cap && (m)->cap <= NUM_CAPMAX)

static void bignat_append_c(struct BigNat *mant, uint32_t dig)
__CPROVER_requires(WF_BIGNAT(mant))
__CPROVER_requires(dig < BIGNAT_BASE)                 /* digit bound preserved: checked at the call site in bignat_muladd */
__CPROVER_assigns(mant->n, mant->cap, mant->digits)
__CPROVER_assigns(mant->cap > 0: __CPROVER_object_whole(mant->digits))
__CPROVER_ensures(mant->n == __CPROVER_old(mant->n) + 1)
;

static void bignat_muladd_c(struct BigNat *mant, uint32_t factor, uint32_t term)
__CPROVER_requires(__CPROVER_is_fresh(mant, sizeof(*mant)))
__CPROVER_requires(WF_BIGNAT(mant) && mant->n == g_n0)
__CPROVER_requires(mant->cap > 0 ==> __CPROVER_is_fresh(mant->digits, (size_t) mant->cap * sizeof(uint32_t)))
__CPROVER_requires(mant->cap == 0 ==> mant->digits == NULL)
__CPROVER_requires(mant->first_digit < BIGNAT_BASE)
__CPROVER_requires(factor >= 2 && factor <= NUM_FACTOR_MAX && term <= 36)
__CPROVER_assigns(mant->first_digit, mant->n, mant->cap, mant->digits)
__CPROVER_assigns(mant->cap > 0: __CPROVER_object_whole(mant->digits))
__CPROVER_ensures(mant->first_digit < BIGNAT_BASE)
__CPROVER_ensures(mant->n == g_n0 || mant->n == g_n0 + 1)
/* every digit is < 2^31 afterwards (ghost index = any position; stated for the no-append case, the appended digit's bound is
 * bignat_append_c's precondition) */
__CPROVER_ensures((mant->n == g_n0 && 0 <= g_idx && g_idx < g_n0) ==> mant->digits[g_idx] < BIGNAT_BASE)
;

/* ---- bignat_extra / bignat_append against realloc's contract ---- */
size_t g_rsz;      /* ghost: size handed to realloc */
void *realloc_c(void *p, size_t sz)
__CPROVER_assigns(g_rsz)
__CPROVER_ensures(g_rsz == sz)
__CPROVER_ensures(__CPROVER_return_value == NULL || __CPROVER_is_fresh(__CPROVER_return_value, sz))
;

static uint32_t *bignat_extra_c(struct BigNat *mant, int32_t n)
__CPROVER_requires(__CPROVER_is_fresh(mant, sizeof(*mant)))
__CPROVER_requires(WF_BIGNAT(mant) && mant->n == g_n0)
__CPROVER_requires(mant->cap > 0 ==> __CPROVER_is_fresh(mant->digits, (size_t) mant->cap * sizeof(uint32_t)))
__CPROVER_requires(mant->cap == 0 ==> mant->digits == NULL)
__CPROVER_requires(n >= 0 && n <= NUM_CAPMAX)
__CPROVER_assigns(mant->n, mant->cap, mant->digits, g_rsz)
__CPROVER_ensures(mant->n == g_n0 + n && mant->n <= mant->cap)
/* the n new digits are writable storage inside the (possibly new) block */
__CPROVER_ensures(n > 0 ==> __CPROVER_w_ok(__CPROVER_return_value, (size_t) n * sizeof(uint32_t)))
__CPROVER_ensures(n > 0 ==> __CPROVER_return_value == mant->digits + g_n0)
;

static void bignat_append_e(struct BigNat *mant, uint32_t dig)
__CPROVER_requires(__CPROVER_is_fresh(mant, sizeof(*mant)))
__CPROVER_requires(WF_BIGNAT(mant) && mant->n == g_n0 && mant->cap < NUM_CAPMAX)
__CPROVER_requires(mant->cap > 0 ==> __CPROVER_is_fresh(mant->digits, (size_t) mant->cap * sizeof(uint32_t)))
__CPROVER_requires(mant->cap == 0 ==> mant->digits == NULL)
__CPROVER_assigns(mant->n, mant->cap, mant->digits, g_rsz)
__CPROVER_assigns(mant->cap > 0: __CPROVER_object_whole(mant->digits))
__CPROVER_ensures(mant->n == g_n0 + 1 && mant->n <= mant->cap)
__CPROVER_ensures(mant->digits[g_n0] == dig)
;

/* ---- bignat_div: every index in range for any n (loop contract); divisor != 0 ---- */
static void bignat_div_c(struct BigNat *mant, uint32_t divisor)
__CPROVER_requires(__CPROVER_is_fresh(mant, sizeof(*mant)))
__CPROVER_requires(WF_BIGNAT(mant) && mant->n == g_n0)
__CPROVER_requires(mant->cap > 0 ==> __CPROVER_is_fresh(mant->digits, (size_t) mant->cap * sizeof(uint32_t)))
__CPROVER_requires(mant->cap == 0 ==> mant->digits == NULL)
__CPROVER_requires(divisor >= 2 && divisor <= NUM_FACTOR_MAX)
__CPROVER_assigns(mant->first_digit, mant->n)
__CPROVER_assigns(mant->cap > 0: __CPROVER_object_whole(mant->digits))
__CPROVER_ensures(mant->n == g_n0 || (g_n0 > 0 && mant->n == g_n0 - 1))
;

/* ---- bignat_lshift_n: the block moves stay inside the digit array ---- */
void *memmove_c(void *dst, const void *src, size_t sz)
__CPROVER_requires(sz == 0 || (__CPROVER_w_ok(dst, sz) && __CPROVER_r_ok(src, sz)))
__CPROVER_assigns(sz > 0: __CPROVER_object_whole(dst))
;
void *memset_c(void *dst, int c, size_t sz)
__CPROVER_requires(sz == 0 || __CPROVER_w_ok(dst, sz))
__CPROVER_assigns(sz > 0: __CPROVER_object_whole(dst))
;

static void bignat_lshift_n_c(struct BigNat *mant, int n)
__CPROVER_requires(__CPROVER_is_fresh(mant, sizeof(*mant)))
__CPROVER_requires(WF_BIGNAT(mant) && mant->n == g_n0)
__CPROVER_requires(mant->cap > 0 ==> __CPROVER_is_fresh(mant->digits, (size_t) mant->cap * sizeof(uint32_t)))
__CPROVER_requires(mant->cap == 0 ==> mant->digits == NULL)
__CPROVER_requires(n >= 0 && n <= 4096)            /* convert(): shamt = 5 - exponent/4 with the exponent short-circuited at ~-1200 */
__CPROVER_assigns(mant->first_digit, mant->n, mant->cap, mant->digits, g_rsz)
__CPROVER_assigns(mant->cap > 0: __CPROVER_object_whole(mant->digits))
__CPROVER_ensures(mant->n == g_n0 + n && mant->n <= mant->cap)
__CPROVER_ensures(n > 0 ==> mant->first_digit == 0)
;

void h_bignat_div(void) {
  struct BigNat *m; uint32_t d;
  bignat_div(m, d);
  REACH("bignat_div returns");
}

void h_bignat_lshift(void) {
  struct BigNat *m; int n;
  bignat_lshift_n(m, n);
  REACH("bignat_lshift_n returns");
}

void h_bignat_extra(void) {
  struct BigNat *m; int32_t n;
  uint32_t *r = bignat_extra(m, n);
  REACH("bignat_extra returns");
}

void h_bignat_append(void) {
  struct BigNat *m; uint32_t d;
  bignat_append(m, d);
  REACH("bignat_append returns");
}

void h_bignat_muladd(void) {
  struct BigNat *m; uint32_t f, t;
  bignat_muladd(m, f, t);
  REACH("bignat_muladd returns");
}
