/* C13: 64-bit integer text - sign and range logic of janet_scan_int64 / janet_scan_uint64 (strtod.c).
 *
 * "64-bit integer text round-trips exactly or is rejected when out of range": with V the natural number denoted by
 * the digits and N the presence of a '-' sign,
 *   janet_scan_int64  accepts  iff the digits are well formed and  -2^63 <= (N ? -V : V) <= 2^63-1, and then stores exactly
 *                     that integer (the comparison is made in 128-bit arithmetic, so it is the mathematical one);
 *   janet_scan_uint64 accepts  iff the digits are well formed, there is no '-' and V <= 2^64-1, and then stores exactly V.
 *
 * The digit scanner scan_uint64 is replaced by its contract (ghosts g_ok/g_neg/g_val are nondeterministic under dfcc):
 * it either rejects, or delivers V (already known to be <= 2^64-1: units num.scan_u64.acc.* show the accumulator
 * never wraps, unit num.scan_u64.value.* checks the delivered value against an independent evaluator for bounded lengths)
 * and N. With that the two functions are loop-free and the proof is for ALL inputs.
 */
#include "prelude.h"

int g_ok, g_neg;      /* ghost: did the digit scanner accept; did it see a '-' */
uint64_t g_val;       /* ghost: the natural number denoted by the digits */

#define G_OK (g_ok != 0)
#define G_NEG (g_neg != 0)
#define TWO63 ((unsigned __int128)1 << 63)
/* the integer denoted by sign and digits, as a 128-bit (i.e. here: mathematical) integer */
#define DENOTED ((G_NEG) ? -(__int128)g_val : (__int128)g_val)

static int scan_uint64_c(const uint8_t *str, int32_t len, uint64_t *out, int *neg)
__CPROVER_requires(__CPROVER_w_ok(out, sizeof(*out)))
__CPROVER_requires(__CPROVER_w_ok(neg, sizeof(*neg)))
__CPROVER_assigns(*out, *neg)
__CPROVER_ensures(__CPROVER_return_value == (G_OK ? 1 : 0))
__CPROVER_ensures(G_OK ==> (*out == g_val && *neg == (G_NEG ? 1 : 0)))
;

int janet_scan_int64_c(const uint8_t *str, int32_t len, int64_t *out)
__CPROVER_requires(len >= 0 && __CPROVER_is_fresh(str, len))
__CPROVER_requires(__CPROVER_is_fresh(out, sizeof(*out)))
__CPROVER_assigns(*out)
/* accepts exactly the texts whose value lies in [-2^63, 2^63-1] */
__CPROVER_ensures((__CPROVER_return_value == 1) ==
                  (G_OK && DENOTED >= -(__int128)TWO63 && DENOTED <= (__int128)(TWO63 - 1)))
__CPROVER_ensures(__CPROVER_return_value == 0 || __CPROVER_return_value == 1)
/* and then the stored integer is exactly the denoted one */
__CPROVER_ensures(__CPROVER_return_value == 1 ==> (__int128)*out == DENOTED)
;

int janet_scan_uint64_c(const uint8_t *str, int32_t len, uint64_t *out)
__CPROVER_requires(len >= 0 && __CPROVER_is_fresh(str, len))
__CPROVER_requires(__CPROVER_is_fresh(out, sizeof(*out)))
__CPROVER_assigns(*out)
/* accepts exactly the unsigned texts (any '-' is refused, also "-0"); the digit scanner has already refused V > 2^64-1 */
__CPROVER_ensures((__CPROVER_return_value == 1) == (G_OK && !G_NEG))
__CPROVER_ensures(__CPROVER_return_value == 0 || __CPROVER_return_value == 1)
__CPROVER_ensures(__CPROVER_return_value == 1 ==> *out == g_val)
;

void h_scan_int64(void) {
  const uint8_t *str; int32_t len; int64_t *out;
  int r = janet_scan_int64(str, len, out);
  REACH("janet_scan_int64 returns");
  if (r) REACH("janet_scan_int64 accepts");
  if (r && g_neg && g_val == ((uint64_t)1 << 63)) REACH("janet_scan_int64 accepts -2^63");
  if (!r && g_ok) REACH("janet_scan_int64 rejects an out-of-range value");
}

void h_scan_uint64(void) {
  const uint8_t *str; int32_t len; uint64_t *out;
  int r = janet_scan_uint64(str, len, out);
  REACH("janet_scan_uint64 returns");
  if (r) REACH("janet_scan_uint64 accepts");
  if (!r && g_ok) REACH("janet_scan_uint64 rejects a negative literal");
}
