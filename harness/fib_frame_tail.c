/* C05 frames, tail variant: janet_fiber_funcframe_tail (fiber.c), plain mode, bounded stack (FIB_CAP slots) with a FAITHFUL
 * realloc model for janet_fiber_setcapacity (new block, contents copied, OLD BLOCK FREED - every pointer into it dangles).
 * Functional contract ("values passed ... arrive unchanged and in order"; new frame slots nil-filled; tail variant keeps
 * fiber->frame):
 *   refusal (arity)  => nothing changes (fields, every slot)
 *   success          => frame unchanged; parameter k of the callee holds argument k (k < number of arguments, below the rest
 *                       slot); missing optional parameters are nil; locals beyond the parameters are nil; the header names
 *                       the callee, is marked TAILCALL and keeps its link to the caller's frame.
 * FIB_NO_REGROW restricts the domain to calls that do not take the second reallocation inside the variadic branch. */
#include "fib_resume.h"
#ifndef FIB_CAP
#define FIB_CAP 8
#endif
#define FIB_BLOCK (4 * FIB_CAP + 8)      /* >= 2 * (stackstart + arity + 1) and >= 2 * (frame + slotcount + FRAME_SIZE) */
#define FIB_NILBITS 0xFFF8800000000001ul
static int g_setcap_calls;
void fib_realloc_stub(JanetFiber *fiber, int32_t n) {
  __CPROVER_assert(n > 0 && n >= fiber->capacity, "C05 frames: requested stack size is positive and not smaller");
  __CPROVER_assert(n <= FIB_BLOCK, "C05 frames: model block size suffices");
  Janet *nu = malloc(FIB_BLOCK * sizeof(Janet));      /* constant-size model block (symbolic block sizes exhaust the solver's memory) */
  __CPROVER_assume(nu != (void *)0);
  for (int32_t k = 0; k < FIB_CAP; k++) if (k < fiber->capacity && k < n) nu[k] = fiber->data[k];
  free(fiber->data);
  fiber->data = nu; fiber->capacity = n; g_setcap_calls++;
}
const Janet *fib_tuple_n_stub(const Janet *values, int32_t n) {
  __CPROVER_assert(n >= 0 && (n == 0 || __CPROVER_r_ok(values, (size_t) n * sizeof(Janet))), "C05 frames: rest arguments are read inside the live stack");
  return (const Janet *) nd_ptr();
}
Janet fib_struct_n_stub(const Janet *args, int32_t n) {
  __CPROVER_assert(n >= 0 && (n == 0 || __CPROVER_r_ok(args, (size_t) n * sizeof(Janet))), "C05 frames: rest arguments are read inside the live stack");
  Janet j; return j;
}
void fib_env_detach_stub(JanetFuncEnv *env) { }
/* memmove on whole stack slots (the only use in the function under proof), via a temporary as ISO C describes it */
void *fib_memmove_stub(void *dest, const void *src, size_t n) {
  __CPROVER_assert(n % sizeof(Janet) == 0 && n / sizeof(Janet) <= FIB_CAP, "C05 frames tail: moves whole slots, at most the stack");
  __CPROVER_assert(__CPROVER_r_ok(src, n), "C05 frames tail: memmove source is inside the live stack block");
  __CPROVER_assert(__CPROVER_w_ok(dest, n), "C05 frames tail: memmove destination is inside the live stack block");
  Janet tmp[FIB_CAP]; const Janet *s = src; Janet *d = dest;
  for (size_t k = 0; k < FIB_CAP; k++) if (k < n / sizeof(Janet)) tmp[k] = s[k];
  for (size_t k = 0; k < FIB_CAP; k++) if (k < n / sizeof(Janet)) d[k] = tmp[k];
  return dest;
}

/* the stack geometry (frame, stackstart, stacktop) is a CONSTANT in each call of this function: the entry point enumerates
 * every geometry that fits FIB_CAP slots (symbolic offsets into the stack block cost tens of GiB in the solver) */
static void tail_case(int32_t g_frame, int32_t g_ss, int32_t g_top) {
  JanetFiber f; JanetFunction fn; JanetFuncDef def; fn.def = &def;
  g_setcap_calls = 0;
  f.capacity = nd_i32(); __CPROVER_assume(f.capacity >= 2 * JANET_FRAME_SIZE && f.capacity <= FIB_CAP);
  f.data = malloc(FIB_BLOCK * sizeof(Janet)); __CPROVER_assume(f.data != (void *)0);
  f.frame = g_frame; f.stackstart = g_ss; f.stacktop = g_top;
  /* representation invariant (see fib_frame.c) */
  __CPROVER_assume(f.frame >= JANET_FRAME_SIZE && f.stackstart >= 2 * JANET_FRAME_SIZE && f.stackstart <= FIB_CAP && f.stacktop <= FIB_CAP && f.frame <= f.stackstart - JANET_FRAME_SIZE && f.stackstart <= f.stacktop && f.stacktop <= f.capacity);
  def.slotcount = nd_i32(); def.arity = nd_i32(); def.min_arity = nd_i32(); def.max_arity = nd_i32(); def.flags = nd_i32();
  int va = (def.flags & JANET_FUNCDEF_FLAG_VARARG) != 0;
  __CPROVER_assume(def.slotcount >= 0 && def.slotcount <= FIB_CAP / 2 && def.arity >= 0 && def.arity <= def.slotcount - va);
  /* funcdefs built by the compiler / accepted by the unmarshaller: min_arity <= arity <= max_arity; max_arity == arity unless variadic */
  __CPROVER_assume(def.min_arity >= 0 && def.min_arity <= def.arity && def.max_arity >= def.arity && (va || def.max_arity == def.arity));
  int32_t frame0 = f.frame, ss0 = f.stackstart, top0 = f.stacktop, cap0 = f.capacity; Janet *data0 = f.data;
  int32_t nargs = top0 - ss0;
  int32_t k = nd_i32(); __CPROVER_assume(k >= 0 && k < FIB_CAP);                /* ghost index */
  uint64_t argk = (k < nargs) ? f.data[ss0 + k].u64 : 0;                       /* argument k */
  uint64_t slotk = (k < cap0) ? f.data[k].u64 : 0;                             /* slot k */
  uint64_t link0 = f.data[frame0 - 1].u64;
#ifdef FIB_NO_REGROW
  { int32_t cap1 = cap0 < frame0 + def.slotcount + JANET_FRAME_SIZE ? 2 * (frame0 + def.slotcount + JANET_FRAME_SIZE) : cap0;
    __CPROVER_assume(!(va && ss0 + def.arity >= top0 && ss0 + def.arity >= cap1)); }
#endif
  int r = janet_fiber_funcframe_tail(&f, &fn);
  REACH("janet_fiber_funcframe_tail returns");
  __CPROVER_assert(r == ((nargs >= def.min_arity && nargs <= def.max_arity) ? 0 : 1), "C05 frames tail: refused exactly on an arity mismatch");
  __CPROVER_assert(f.frame == frame0, "C05 frames tail: fiber->frame is kept");
  if (r == 1) {
    REACH("tail: arity refused");
    __CPROVER_assert(f.stackstart == ss0 && f.stacktop == top0 && f.capacity == cap0 && f.data == data0 && g_setcap_calls == 0 &&
                     (k >= cap0 || f.data[k].u64 == slotk), "C05 frames tail: an arity refusal changes nothing");
  } else {
    REACH("tail: frame replaced");
    if (g_setcap_calls) REACH("tail: stack reallocated");
    __CPROVER_assert(f.stackstart == f.stacktop && f.stacktop == frame0 + def.slotcount + JANET_FRAME_SIZE && f.stacktop <= f.capacity,
                     "C05 frames tail: the frame is re-sized in place");
    int32_t fixed = va ? def.arity : def.slotcount;      /* parameters below the rest slot */
    if (k < nargs && k < fixed) __CPROVER_assert(f.data[frame0 + k].u64 == argk, "C05 frames tail: argument k arrives unchanged in parameter slot k");
    if (k >= nargs && k < fixed) __CPROVER_assert(f.data[frame0 + k].u64 == FIB_NILBITS, "C05 frames tail: missing parameters and locals are nil");
    if (va && k > def.arity && k < def.slotcount) __CPROVER_assert(f.data[frame0 + k].u64 == FIB_NILBITS, "C05 frames tail: locals beyond the rest slot are nil");
    JanetStackFrame *h = (JanetStackFrame *)(f.data + frame0 - JANET_FRAME_SIZE);
    __CPROVER_assert(h->func == &fn && h->pc == def.bytecode && h->env == (void *)0 && (h->flags & JANET_STACKFRAME_TAILCALL) &&
                     (uint32_t) h->prevframe == (uint32_t) link0, "C05 frames tail: header names the callee, TAILCALL, caller link kept");
  }
}

/* one geometry (frame, stackstart, stacktop) per unit (-DFIB_FRAME/-DFIB_SS/-DFIB_TOP): the generator enumerates every
 * geometry with frame >= FRAME_SIZE, stackstart >= frame + FRAME_SIZE, stackstart <= stacktop <= FIB_CAP */
#ifndef FIB_FRAME
#define FIB_FRAME 4
#define FIB_SS 8
#define FIB_TOP 8
#endif
void h_funcframe_tail_b(void) { tail_case(FIB_FRAME, FIB_SS, FIB_TOP); }
