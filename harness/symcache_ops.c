/* C01 / C03: janet_symcache_findmem, janet_symcache_put, janet_cache_resize, janet_symbol_deinit, janet_symbol (symcache.c),
 * each from an ARBITRARY well-formed cache of capacity SY_CAP (symcache_common.h: universe, wf_cache I1..I6, set view).
 * Every operation is proved from every well-formed state and re-establishes wf_cache, so the statements hold after
 * histories of any length (at these capacities).
 * In the put.grow units janet_cache_resize is replaced by its contract (sy_resize_contract), which units sc.resize.* prove
 * of the real function; everything else runs the real code, including the real findmem inside put / deinit / resize.
 */
#include "symcache_common.h"

#ifndef SY_CAP
#define SY_CAP 4
#endif
#ifndef SY_NEWMAX             /* largest capacity a resize may be asked for in this unit */
#define SY_NEWMAX 8
#endif
#ifndef SY_SIZE_MIN
#define SY_SIZE_MIN 4
#endif
#ifndef SY_SIZE_MAX
#define SY_SIZE_MAX SY_NEWMAX
#endif

/* ---------------------------------------------------------------- janet_symcache_findmem
 *   requires wf_cache; str is a symbol object or caller buffer with text t, len / hash are those of t
 *   ensures  wf_cache; counters unchanged; the cache as a set of interned objects unchanged (ghost text);
 *            t live      => success == 1 and the returned slot holds THE interned object of t (it may have been moved forward
 *                           into the first tombstone of its probe path)
 *            t not live  => success == 0, no slot changed, the returned slot is free (NULL or tombstone) and reachable from
 *                           home(t) without crossing NULL - storing a symbol of text t there keeps I2, I3 */
void h_findmem(void) {
  SyView o, n;
  sy_init();
  int ok0 = sy_any_cache(SY_CAP, &o);
  __CPROVER_assume(ok0 && sy_wf(&o));                              /* requires wf_cache */
  int t = sy_text();
  const uint8_t *str = sy_obj[t];
  if (nd_int()) { __CPROVER_assume(sy_twin_t == t); str = sy_twin; }   /* the interned object itself, or another copy of the text */
  int success = nd_int();

  const uint8_t **r = janet_symcache_findmem(str, g_sy_len[t], g_sy_hash[t], &success);

  int ok1 = sy_decode(&n);
  __CPROVER_assert(ok1 && sy_wf(&n), "C01 symcache findmem re-establishes wf_cache: a lookup (with its move-to-tombstone) keeps every live entry reachable without crossing NULL, texts unique, counters right");
  __CPROVER_assert(n.count == o.count && n.deleted == o.deleted && n.cap == o.cap, "C01 symcache findmem: counters and capacity unchanged");
  __CPROVER_assert(__CPROVER_same_object(r, janet_vm.cache) && r >= janet_vm.cache && r < janet_vm.cache + SY_CAP, "C01 symcache findmem returns a slot of the cache");
  uint32_t ri = (uint32_t)(r - janet_vm.cache);
  int so = sy_slot_of(&o, t);
  if (so >= 0) {
    __CPROVER_assert(success == 1, "C01 symcache findmem finds every live text (success == 1)");
    __CPROVER_assert(*r == o.ptr[so], "C03 symcache findmem: the returned slot holds the one interned object of the text (identical pointer)");
  } else {
    __CPROVER_assert(success == 0, "C01 symcache findmem reports a text that is not live as absent (success == 0)");
    __CPROVER_assert(o.kind[ri] == 0 || o.kind[ri] == SY_DEL, "C01 symcache findmem: the slot offered for a new symbol is free (NULL or tombstone)");
    __CPROVER_assert(sy_reachable(&o, t, ri), "C01 symcache findmem: the slot offered for a new symbol is reachable from its home slot without crossing NULL");
    for (uint32_t i = 0; i < SY_CAP; i++) __CPROVER_assert(n.ptr[i] == o.ptr[i], "C01 symcache findmem: an unsuccessful lookup changes no slot");
  }
  int g = sy_text();
  SY_FRAME(o, n, g, 0, "findmem");
  REACH("findmem returns");
  if (so < 0) REACH("findmem: text not live");
  if (so >= 0 && ri != (uint32_t) so) REACH("findmem: found entry moved forward into a tombstone");
  if (so >= 0 && ri != (uint32_t) so && ri > (uint32_t) so) REACH("findmem: found entry moved across the wrap-around");
}

/* ---------------------------------------------------------------- janet_symbol_deinit
 *   requires wf_cache; sym is an interned object (GC sweep: every symbol block is in the cache), or no live entry carries
 *            its text
 *   ensures  set' = set - {sym} exactly: the entry removed is sym itself; a tombstone is written; count - 1, deleted + 1;
 *            every other entry stays interned as the identical object and reachable (wf_cache) */
void h_deinit(void) {
  SyView o, n;
  sy_init();
  int ok0 = sy_any_cache(SY_CAP, &o);
  __CPROVER_assume(ok0 && sy_wf(&o));
  int t = sy_text();
  int so = sy_slot_of(&o, t);
  const uint8_t *sym = sy_obj[t];                                  /* interned or not */
  if (so < 0 && nd_int()) { __CPROVER_assume(sy_twin_t == t); sym = sy_twin; }

  janet_symbol_deinit(sym);

  int ok1 = sy_decode(&n);
  __CPROVER_assert(ok1 && sy_wf(&n), "C01 symcache deinit re-establishes wf_cache: the tombstone keeps every other live entry reachable, counters right");
  __CPROVER_assert(sy_live(&n, t) == SY_NULLP, "C01 symcache deinit: the swept symbol is no longer interned");
  if (so >= 0) {
    __CPROVER_assert(n.count == o.count - 1 && n.deleted == o.deleted + 1, "C01 symcache deinit: cache_count decremented, cache_deleted incremented");
    __CPROVER_assert(n.ntomb == o.ntomb + 1 && n.nlive == o.nlive - 1, "C01 symcache deinit: exactly one live slot became a tombstone");
  } else {
    __CPROVER_assert(n.count == o.count && n.deleted == o.deleted, "C01 symcache deinit of a symbol that is not interned changes no counter");
    for (uint32_t i = 0; i < SY_CAP; i++) __CPROVER_assert(n.ptr[i] == o.ptr[i], "C01 symcache deinit of a symbol that is not interned changes no slot");
  }
  int g = sy_text();
  SY_FRAME(o, n, g, t, "deinit");
  REACH("deinit returns");
  if (so >= 0) REACH("deinit of an interned symbol");
  if (so >= 0 && o.ntomb > 0) REACH("deinit of an interned symbol in a cache with tombstones");
}

/* ---------------------------------------------------------------- contract of janet_cache_resize
 *   requires I1..I4, newCapacity a power of two >= 4 and > cache_count (its only caller janet_symcache_put asks for
 *            max(4, janet_tablen(2*count+1)); a request for 2 slots - the code before commit 9ee9625 - violates it)
 *   ensures  a NEW exact block of newCapacity slots without tombstones; the same set of interned objects (identical
 *            pointers); cache_count unchanged, cache_deleted == 0; I2..I4; the old block freed */
static uint32_t g_sy_resizes;
static void sy_resize_model(uint32_t newcap, const uint8_t **oldlive) {          /* newcap: a constant at every call */
  const uint8_t **c = malloc((size_t) newcap * sizeof(const uint8_t *));
  __CPROVER_assume(c != SY_NULLP);
  for (uint32_t i = 0; i < newcap; i++) {
    int k = nd_int();
    __CPROVER_assume(k >= 0 && k <= SY_K);
    c[i] = k == 0 ? (const uint8_t *) SY_NULLP : sy_obj[k];
  }
  free((void *) janet_vm.cache);
  janet_vm.cache = c;
  janet_vm.cache_capacity = newcap;
  janet_vm.cache_deleted = 0;
  SyView n;
  int ok = sy_decode(&n);
  __CPROVER_assume(ok && sy_wf_struct(&n));
  for (int t = 1; t <= SY_K; t++) __CPROVER_assume(sy_live(&n, t) == oldlive[t]);
}
void sy_resize_contract(uint32_t newcap) {
  SyView o;
  g_sy_resizes++;
  int ok = sy_decode(&o);
  __CPROVER_assert(ok && sy_wf_struct(&o), "C01 symcache resize precondition: cache well-formed (I1..I4)");
  __CPROVER_assert(newcap >= SY_MINCAP, "C01 symcache resize precondition: the cache never shrinks below 4 slots (a cache of 2 slots would be filled completely by the second symbol)");
  __CPROVER_assert(sy_pow2(newcap) && newcap > o.count && newcap <= SY_NEWMAX, "C01 symcache resize precondition: new capacity is a power of two with room for every entry (and within the capacities units sc.resize.* cover)");
  __CPROVER_assert(sy_live(&o, sy_twin_t) != sy_twin, "C01 symcache harness: the extra object is not in the cache when a resize starts");
  const uint8_t **oldlive = malloc((SY_K + 1) * sizeof(const uint8_t *));
  __CPROVER_assume(oldlive != SY_NULLP);
  for (int t = 0; t <= SY_K; t++) oldlive[t] = sy_live(&o, t);
  if (newcap == 4) sy_resize_model(4, oldlive);
  else if (newcap == 8) sy_resize_model(8, oldlive);
  else if (newcap == 16) sy_resize_model(16, oldlive);
  else __CPROVER_assume(0);                                        /* excluded by the asserted precondition */
}
void sy_resize_unreachable(uint32_t newcap) {
  __CPROVER_assert(0, "C01 symcache put: resize happens only at the load limit");
  __CPROVER_assume(0);
}

/* ---------------------------------------------------------------- janet_cache_resize (real), one call site per new capacity */
static void sy_resize_case(uint32_t newcap) {
  SyView o, n;
  int ok0 = sy_decode(&o);
  const uint8_t **oldblock = janet_vm.cache;
  janet_cache_resize(newcap);
  int ok1 = sy_decode(&n);
  __CPROVER_assert(ok0 && ok1 && n.cap == newcap && janet_vm.cache != oldblock, "C01 symcache resize: the cache is a new heap block of exactly newCapacity slots");
  __CPROVER_assert(sy_wf_struct(&n), "C01 symcache resize re-establishes I2..I4: texts unique, every entry reachable from its home slot, count exact");
  __CPROVER_assert(n.ntomb == 0 && n.deleted == 0, "C01 symcache resize: no tombstones, cache_deleted == 0");
  __CPROVER_assert(n.count == o.count && n.nlive == o.nlive, "C01 symcache resize: cache_count unchanged and exact - no entry lost, none duplicated");
  int g = sy_text();
  SY_FRAME(o, n, g, 0, "resize");
  REACH("resize returns");
#if SY_SIZE_MAX > SY_CAP
  if (newcap > SY_CAP && o.nlive >= 2 && o.ntomb > 0) REACH("resize grows a cache with several entries and tombstones");
#endif
#if SY_SIZE_MIN < SY_CAP
  if (newcap < SY_CAP && o.nlive >= 1) REACH("resize shrinks a cache");
#endif
}
void h_resize(void) {
  SyView o;
  sy_init();
  int ok0 = sy_any_cache(SY_CAP, &o);
  __CPROVER_assume(ok0 && sy_wf(&o));
  uint32_t newcap = nd_u32();
  __CPROVER_assume(sy_pow2(newcap) && newcap > o.count && newcap >= SY_SIZE_MIN && newcap <= SY_SIZE_MAX);
  if (newcap == 4) sy_resize_case(4);
  else if (newcap == 8) sy_resize_case(8);
  else if (newcap == 16) sy_resize_case(16);
  else __CPROVER_assert(0, "C01 symcache resize unit: SY_SIZE_MAX <= 16");
}

/* ---------------------------------------------------------------- janet_symcache_put (after the findmem of janet_symbol)
 *   requires wf_cache; x a symbol object whose text is not live; bucket = what findmem returned for it
 *   ensures  set' = set + {x}: x is interned (the identical object), every other entry stays interned as the identical
 *            object; cache_count + 1; wf_cache re-established (I5 / I6 included: room for the next lookup)
 * SY_PUT_COUNT undefined: every call that does not resize (the resize replacement asserts that it is not reached)
 * SY_PUT_COUNT = c      : cache_count == c at the load limit (cache_count + cache_deleted == capacity/2 + 1): the calls that
 *                         resize; count and deleted are constants, hence the new capacity janet_tablen(2*c+1) */
void h_put(void) {
  SyView o, n;
  sy_init();
  int ok0 = sy_any_cache(SY_CAP, &o);
#ifdef SY_PUT_COUNT
  janet_vm.cache_count = SY_PUT_COUNT;
  janet_vm.cache_deleted = SY_CAP / 2 + 1 - SY_PUT_COUNT;
  ok0 = ok0 && sy_decode(&o);
#endif
  __CPROVER_assume(ok0 && sy_wf(&o));
  int atlimit = (o.count + o.deleted) * 2 > SY_CAP;
#ifdef SY_PUT_COUNT
  __CPROVER_assume(atlimit);
#else
  __CPROVER_assume(!atlimit);
#endif
  const uint8_t *x = sy_twin;                                      /* the new object; its text: */
  int t = sy_twin_t;
  __CPROVER_assume(sy_slot_of(&o, t) < 0);                         /* not live (janet_symbol / janet_symbol_gen call put only then) */
  int success = nd_int();
  const uint8_t **bucket = janet_symcache_findmem(x, g_sy_len[t], g_sy_hash[t], &success);
  g_sy_resizes = 0;

  janet_symcache_put(x, bucket);

  int ok1 = sy_decode(&n);
  __CPROVER_assert(ok1 && sy_wf_struct(&n), "C01 symcache put re-establishes I1..I4: texts unique, every entry reachable from its home slot without crossing NULL, count exact, deleted an upper bound");
  __CPROVER_assert(sy_wf_load(&n), "C01 symcache put re-establishes I5 / I6: load within bounds and a free slot left, so the next lookup of an absent text cannot end in the fatal exit");
  __CPROVER_assert(sy_live(&n, t) == x, "C01 symcache put: the new symbol is interned (identical object)");
  __CPROVER_assert(n.count == o.count + 1, "C01 symcache put: cache_count incremented");
  int g = sy_text();
  SY_FRAME(o, n, g, t, "put");
  REACH("put returns");
#ifdef SY_PUT_COUNT
  __CPROVER_assert(g_sy_resizes == 1, "C01 symcache put: at the load limit the cache is resized once");
  REACH("put after resize");
#else
  __CPROVER_assert(n.cap == SY_CAP && n.deleted == o.deleted, "C01 symcache put below the load limit: capacity and cache_deleted unchanged");
  if (o.kind[sy_slot_of(&n, t)] == SY_DEL) REACH("put stores the new symbol in a tombstone");
  if (o.kind[sy_slot_of(&n, t)] == 0 && o.nlive > 0) REACH("put stores the new symbol in a NULL slot of a non-empty cache");
  /* the fullest a cache gets without a resize: capacity/2 + 1 entries (capacity 4: count 1 -> 2 -> 3), one slot must stay free */
  if (n.count == SY_CAP / 2 + 1) {
    __CPROVER_assert(n.nlive < SY_CAP, "C01 symcache put up to the load limit without resize: at least one slot stays free (I6)");
    REACH("put fills the cache to capacity/2 + 1 entries without resize");
  }
#endif
}

/* ---------------------------------------------------------------- janet_symbol, lookup path
 *   text already interned => the existing object is returned, nothing is allocated, set and counters unchanged */
void *janet_gcalloc(enum JanetMemoryType type, size_t size) {
  __CPROVER_assert(0, "C03 janet_symbol: no allocation (no second copy) for a text that is already interned");
  __CPROVER_assume(0);
  return SY_NULLP;
}
int32_t janet_string_calchash(const uint8_t *str, int32_t len) {   /* contract: a function of the text */
  int t = sy_tid(str);
  __CPROVER_assert(t != 0 && len == g_sy_len[t], "C01 symcache harness: hashed string is of the universe");
  return g_sy_hash[t];
}
void h_symbol_found(void) {
  SyView o, n;
  sy_init();
  int ok0 = sy_any_cache(SY_CAP, &o);
  __CPROVER_assume(ok0 && sy_wf(&o));
  int t = sy_twin_t;
  int so = sy_slot_of(&o, t);
  __CPROVER_assume(so >= 0);                                       /* the text is interned */

  const uint8_t *p = janet_symbol(sy_twin, g_sy_len[t]);           /* caller buffer with the same text */

  int ok1 = sy_decode(&n);
  __CPROVER_assert(p == o.ptr[so] && p != sy_twin, "C03 janet_symbol: interning a text that is already interned returns the existing object (identical pointer)");
  __CPROVER_assert(ok1 && sy_wf(&n), "C01 symcache janet_symbol (lookup path) re-establishes wf_cache");
  __CPROVER_assert(n.count == o.count && n.deleted == o.deleted, "C03 janet_symbol (lookup path): counters unchanged");
  int g = sy_text();
  SY_FRAME(o, n, g, 0, "janet_symbol (lookup path)");
  REACH("janet_symbol returns the interned object");
  if (sy_slot_of(&n, t) != so) REACH("janet_symbol: lookup moved the entry into a tombstone");
}
