/* C11 "every value printable in Janet data notation (%j) parses back": the string-literal layer, byte by byte.
 * For EVERY byte value c: the REAL printer janet_escape_string_impl (pp.c, used by %j/%p/%q for strings, buffers, symbols with
 * odd bytes) is run on the one-byte string c with the buffer primitives replaced by recording contracts; the bytes it emitted
 * between the quotes are then fed through the REAL janet_parser_consume with the parser positioned inside a string literal
 * (stringchar -> escape1 -> escapeh -> stringchar, real push_buf).  The parser must report no error, stay inside the literal, and
 * have accumulated exactly the byte c.  Because stringchar returns to the same state after every printed unit, the fact composes
 * over strings of any length. */
#include "prelude.h"
uint8_t g_out[16]; int g_n;
void push_u8_stub(JanetBuffer *b, uint8_t x) { __CPROVER_assert(g_n < 16, "ghost capacity"); g_out[g_n++] = x; }
void push_bytes_stub(JanetBuffer *b, const uint8_t *bytes, int32_t len) {
  __CPROVER_assert(len >= 0 && g_n + len <= 16, "ghost capacity");
  for (int32_t i = 0; i < len; i++) g_out[g_n++] = bytes[i];
}
/* the 8-byte token buffer of the harness never has to grow: growth (realloc) is the business of the push_buf unit */
void *realloc_stub(void *q, size_t n) { __CPROVER_assert(0, "C11 harness: push_buf stays within the preallocated capacity"); __CPROVER_assume(0); return 0; }
void h_escape_roundtrip(void) {
  uint8_t c = nd_u8();
  JanetBuffer b; g_n = 0;
  janet_escape_string_impl(&b, &c, 1);
  __CPROVER_assert(g_n >= 3 && g_n <= 6 && g_out[0] == '"' && g_out[g_n - 1] == '"', "C11 printer: a quoted literal of 1..4 bytes");

  JanetParser p; JanetParseState st[2]; uint8_t buf[8];
  p.args = 0; p.argcount = 0; p.argcap = 0; p.pending = 0;
  p.buf = buf; p.bufcount = 0; p.bufcap = 8;
  p.states = st; p.statecount = 2; p.statecap = 2;
  p.error = 0; p.flag = 0; p.lookback = '"'; p.line = nd_size(); p.column = nd_size();
  st[0].consumer = root; st[0].flags = PFLAG_CONTAINER; st[0].argn = 0; st[0].counter = 0; st[0].line = 1; st[0].column = 0;
  st[1].consumer = stringchar; st[1].flags = PFLAG_STRING; st[1].argn = 0; st[1].counter = 0; st[1].line = 1; st[1].column = 1;
  for (int k = 1; k < g_n - 1; k++) {
    janet_parser_consume(&p, g_out[k]);
    __CPROVER_assert(p.error == 0, "C11 round trip: the printed literal is accepted (no parse error)");
    __CPROVER_assert(p.statecount == 2, "C11 round trip: the printed byte does not terminate the literal");
  }
  __CPROVER_assert(st[1].consumer == stringchar, "C11 round trip: the escape sequence is complete");
  __CPROVER_assert(p.bufcount == 1 && p.buf == buf && buf[0] == c, "C11 round trip: the literal denotes exactly the byte that was printed");
  REACH("escape round trip completes");
}
