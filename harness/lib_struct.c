/* C04 (C level): the registered C functions of struct.c - struct/with-proto, struct/getproto, struct/rawget,
 * struct/to-table, struct/proto-flatten - plain mode, bounded (chains of at most LIB_DEPTH structs with at most LIB_CAP
 * buckets each; argument vectors of at most LIB_ARGS slots). The struct builders (janet_struct_begin / put / put_ext /
 * end; units struct.layout.*, val.struct.* of C03) and the table operations (janet_table, janet_table_put; units tab.*)
 * are replaced by recording stubs of their signatures (--replace-calls for those defined in struct.c); janet_struct_rawget
 * likewise. Trusted stubs: capi.c getters (janet_getstruct -> slot 0: the first struct of the chain; janet_optstruct ->
 * default when the slot is absent or nil, else g_parg; each asserts slot index < argc), janet_truthy is the real macro. */
#include "prelude.h"
#include <stdlib.h>
#define L_NULL ((void *)0)
/* value comparison independent of the value representation. These units run with nanbox: false (tagged-struct Janet):
 * a nanboxed reference loses CBMC's object number when the tag bits are or-ed in, so that "returns THIS object" could only
 * be compared modulo the offset; with the tagged representation the pointer itself is compared. */
#ifdef JANET_NANBOX_64
#define JU64(x) ((x).u64)
#define SAME(a, b) ((a).u64 == (b).u64)
#else
#define JU64(x) ((x).as.u64)
#define SAME(a, b) ((a).type == (b).type && (a).as.u64 == (b).as.u64)
#endif
#define IS_REF(r, t, p) (janet_checktype((r), (t)) && janet_unwrap_pointer(r) == (void *)(p))
Janet nd_janet(void);
#ifndef LIB_DEPTH
#define LIB_DEPTH 3
#endif
#ifndef LIB_CAP
#define LIB_CAP 2
#endif
#ifndef LIB_ARGS
#define LIB_ARGS 7
#endif
int32_t g_argc;
struct sblock { JanetStructHead head; JanetKV kv[LIB_CAP]; };
struct sblock *g_s[LIB_DEPTH]; int g_depth;
const JanetKV *g_parg;                    /* what a given proto argument yields */
#define SDATA(k) ((const JanetKV *)g_s[k]->kv)
#define SLOT_OK(n) __CPROVER_assert((n) >= 0 && (n) < g_argc, "argument slot index below argc")
void janet_fixarity(int32_t argc, int32_t fix) { __CPROVER_assume(argc == fix); }
void janet_arity(int32_t argc, int32_t min, int32_t max) { __CPROVER_assume(argc >= min && (max < 0 || argc <= max)); }
const JanetKV *janet_getstruct(const Janet *argv, int32_t n) { SLOT_OK(n); __CPROVER_assert(n == 0, "struct is slot 0"); return SDATA(0); }
const JanetKV *janet_optstruct(const Janet *argv, int32_t argc, int32_t n, const JanetKV *dflt) {
  if (n >= argc) return dflt;
  if (janet_checktype(argv[n], JANET_NIL)) return dflt;
  return g_parg;
}
/* ---- recording stubs: struct builders ---- */
#define MAXREC 8
struct sblock *g_acc; int g_begins, g_ends, g_puts; int32_t g_begin_count;
Janet g_pk[MAXREC], g_pv[MAXREC]; int g_prepl[MAXREC]; const JanetKV *g_proto_at_end;
JanetKV *janet_struct_begin_stub(int32_t count) {
  __CPROVER_assert(count >= 0, "janet_struct_begin precondition: count >= 0");
  g_acc = malloc(sizeof(struct sblock));
  __CPROVER_assume(g_acc != L_NULL);
  g_acc->head.proto = L_NULL;
  g_begins++; g_begin_count = count;
  return (JanetKV *)g_acc->kv;
}
static void rec_put(JanetKV *st, Janet k, Janet v, int replace) {
  __CPROVER_assert(g_begins == 1 && g_ends == 0 && st == (JanetKV *)g_acc->kv, "struct put: on the struct under construction");
  __CPROVER_assert(g_puts < MAXREC, "harness: put count within the bound");
  g_pk[g_puts] = k; g_pv[g_puts] = v; g_prepl[g_puts] = replace; g_puts++;
}
void janet_struct_put_stub(JanetKV *st, Janet k, Janet v) { rec_put(st, k, v, 1); }
void janet_struct_put_ext_stub(JanetKV *st, Janet k, Janet v, int replace) { rec_put(st, k, v, replace); }
const JanetKV *janet_struct_end_stub(JanetKV *st) {
  __CPROVER_assert(g_begins == 1 && g_ends == 0 && st == (JanetKV *)g_acc->kv, "janet_struct_end: on the struct under construction, once");
  g_ends++; g_proto_at_end = g_acc->head.proto;
  return st;
}
int g_rawgets; const JanetKV *g_rg_st; Janet g_rg_key, g_ret;
Janet janet_struct_rawget_stub(const JanetKV *st, Janet key) { g_rawgets++; g_rg_st = st; g_rg_key = key; return g_ret; }
/* ---- recording stubs: tables ---- */
JanetTable *g_t[LIB_DEPTH + 1]; int g_tables; int32_t g_tcap[LIB_DEPTH + 1];
int g_tputs[LIB_DEPTH + 1]; Janet g_tk[LIB_DEPTH + 1][LIB_CAP], g_tv[LIB_DEPTH + 1][LIB_CAP];
JanetTable *janet_table(int32_t capacity) {
  __CPROVER_assert(capacity >= 0, "janet_table precondition: capacity >= 0");
  __CPROVER_assert(g_tables <= LIB_DEPTH, "harness: table count within the bound");
  JanetTable *t = malloc(sizeof(JanetTable));
  __CPROVER_assume(t != L_NULL);
  t->proto = L_NULL; t->count = 0;
  g_t[g_tables] = t; g_tcap[g_tables] = capacity; g_tables++;
  return t;
}
void janet_table_put(JanetTable *t, Janet k, Janet v) {
  int w = -1;
  for (int i = LIB_DEPTH; i >= 0; i--) if (i < g_tables && g_t[i] == t) w = i;
  __CPROVER_assert(w >= 0, "janet_table_put: on a table created by this call");
  __CPROVER_assert(g_tputs[w] < LIB_CAP, "harness: put count within the bound");
  g_tk[w][g_tputs[w]] = k; g_tv[w][g_tputs[w]] = v; g_tputs[w]++;
}

/* chain of g_depth structs, struct k has capacity 1..LIB_CAP (constant-size blocks), any bucket content */
static Janet *mk_args(void) {
  g_argc = nd_i32();
  __CPROVER_assume(g_argc >= 0 && g_argc <= LIB_ARGS);
  Janet *argv = malloc(sizeof(Janet[LIB_ARGS]));
  __CPROVER_assume(argv != L_NULL);
  g_depth = nd_int();
  __CPROVER_assume(g_depth >= 1 && g_depth <= LIB_DEPTH);
  for (int k = 0; k < LIB_DEPTH; k++) {
    g_s[k] = malloc(sizeof(struct sblock));
    __CPROVER_assume(g_s[k] != L_NULL);
    __CPROVER_assume(g_s[k]->head.capacity >= 1 && g_s[k]->head.capacity <= LIB_CAP && g_s[k]->head.length >= 0 && g_s[k]->head.length <= g_s[k]->head.capacity);
  }
  for (int k = 0; k < LIB_DEPTH; k++) g_s[k]->head.proto = (k + 1 < g_depth) ? SDATA(k + 1) : (const JanetKV *)L_NULL;
  g_parg = SDATA(0);
  g_begins = 0; g_ends = 0; g_puts = 0; g_tables = 0; g_rawgets = 0; g_ret = nd_janet();
  for (int k = 0; k <= LIB_DEPTH; k++) g_tputs[k] = 0;
  return argv;
}
#define LIVE(k, i) ((i) < g_s[k]->head.capacity && !janet_checktype(g_s[k]->kv[i].key, JANET_NIL))

/* ---- (struct/with-proto proto & kvs): odd argument count >= 1 (else raises); proto a struct or nil; builds a struct of
 * argc / 2 pairs from the arguments in order and attaches the prototype BEFORE the struct is finished (janet_struct_end
 * includes it in the hash) */
void h_struct_with_proto(void) {
  Janet *argv = mk_args();
  Janet r = cfun_struct_with_proto(g_argc, argv);
  REACH("struct/with-proto returns");
  __CPROVER_assert(g_argc >= 1 && (g_argc & 1) == 1, "C04: struct/with-proto returns only for an odd argument count >= 1");
  __CPROVER_assert(g_begins == 1 && g_ends == 1 && g_begin_count == g_argc / 2 && g_puts == g_argc / 2, "C04: struct/with-proto builds one struct of argc / 2 pairs");
  for (int k = 0; k < LIB_ARGS / 2; k++) if (k < g_puts)
    __CPROVER_assert(SAME(g_pk[k], argv[2 * k + 1]) && SAME(g_pv[k], argv[2 * k + 2]) && g_prepl[k] == 1, "C04: the pairs are put in argument order, key then value, later duplicates replace");
  __CPROVER_assert(g_proto_at_end == (janet_checktype(argv[0], JANET_NIL) ? (const JanetKV *)L_NULL : g_parg), "C04: the prototype (none for nil) is attached before the struct is finished");
  __CPROVER_assert(IS_REF(r, JANET_STRUCT, g_acc->kv), "C04: struct/with-proto returns the finished struct");
  if (g_argc == 7) REACH("struct/with-proto returns for three pairs");
  if (g_argc == 1) REACH("struct/with-proto returns for a prototype alone");
}
/* ---- (struct/getproto st), (struct/rawget st key) */
void h_struct_getproto(void) {
  Janet *argv = mk_args();
  Janet r = cfun_struct_getproto(g_argc, argv);
  REACH("struct/getproto returns");
  __CPROVER_assert(g_argc == 1 && (g_depth > 1 ? IS_REF(r, JANET_STRUCT, SDATA(1)) : janet_checktype(r, JANET_NIL)), "C04: struct/getproto (arity 1) returns the prototype struct or nil");
  if (g_depth > 1) REACH("struct/getproto returns a struct");
}
void h_struct_rawget(void) {
  Janet *argv = mk_args();
  Janet r = cfun_struct_rawget(g_argc, argv);
  REACH("struct/rawget returns");
  __CPROVER_assert(g_argc == 2 && g_rawgets == 1 && g_rg_st == SDATA(0) && SAME(g_rg_key, argv[1]) && SAME(r, g_ret), "C04: struct/rawget (arity 2) returns the raw lookup of key in st itself");
}
/* ---- (struct/to-table st &opt recursive): a NEW table holding the pairs of st; with a truthy `recursive` the prototype
 * chain is converted as well: table k holds the pairs of struct k and has table k + 1 as prototype; otherwise ONE table
 * without prototype */
void h_struct_to_table(void) {
  Janet *argv = mk_args();
  Janet r = cfun_struct_to_table(g_argc, argv);
  REACH("struct/to-table returns");
  __CPROVER_assert(g_argc >= 1 && g_argc <= 2, "C04: struct/to-table has arity 1..2");
  int rec = g_argc > 1 && janet_truthy(argv[1]);
  __CPROVER_assert(g_tables == (rec ? g_depth : 1) && IS_REF(r, JANET_TABLE, g_t[0]), "C04: one table per converted struct (only st itself unless recursive); the first one is returned");
  for (int k = 0; k < LIB_DEPTH; k++) if (k < g_tables) {
    __CPROVER_assert(g_t[k]->proto == (k + 1 < g_tables ? g_t[k + 1] : (JanetTable *)L_NULL), "C04: the tables are chained like the structs, the last one has no prototype");
    __CPROVER_assert(g_tcap[k] == g_s[k]->head.length, "C04: each table is created with room for the struct's pairs");
    int n = 0;
    for (int i = 0; i < LIB_CAP; i++) if (LIVE(k, i)) {
      __CPROVER_assert(n < g_tputs[k] && SAME(g_tk[k][n], g_s[k]->kv[i].key) && SAME(g_tv[k][n], g_s[k]->kv[i].value), "C04: every pair of struct k is put into table k");
      n++;
    }
    __CPROVER_assert(g_tputs[k] == n, "C04: nothing but the pairs of struct k is put into table k");
  }
  if (rec && g_depth == LIB_DEPTH) REACH("struct/to-table returns a chain of tables of the maximal depth");
  if (!rec && g_depth == LIB_DEPTH) REACH("struct/to-table returns one table for a struct with prototypes");
}
/* ---- (struct/proto-flatten st): ONE new struct without prototype, created with room for the sum of the lengths along the
 * chain; the pairs are put nearest struct first WITHOUT replacing (the nearest definition of a key wins) */
void h_struct_flatten(void) {
  Janet *argv = mk_args();
  Janet r = cfun_struct_flatten(g_argc, argv);
  REACH("struct/proto-flatten returns");
  int64_t total = 0; int n = 0;
  for (int k = 0; k < LIB_DEPTH; k++) if (k < g_depth) {
    total += g_s[k]->head.length;
    for (int i = 0; i < LIB_CAP; i++) if (LIVE(k, i)) {
      __CPROVER_assert(n < g_puts && SAME(g_pk[n], g_s[k]->kv[i].key) && SAME(g_pv[n], g_s[k]->kv[i].value) && g_prepl[n] == 0, "C04: the pairs are put nearest struct first, without replacing earlier ones");
      n++;
    }
  }
  __CPROVER_assert(g_argc == 1 && g_begins == 1 && g_ends == 1 && (int64_t)g_begin_count == total && g_puts == n, "C04: struct/proto-flatten (arity 1) builds one struct with room for all pairs of the chain and puts nothing else");
  __CPROVER_assert(g_proto_at_end == (const JanetKV *)L_NULL && IS_REF(r, JANET_STRUCT, g_acc->kv), "C04: the flattened struct has no prototype and is returned");
  if (g_depth == LIB_DEPTH && n == LIB_DEPTH * LIB_CAP) REACH("struct/proto-flatten returns for a chain of full structs of the maximal depth");
}
