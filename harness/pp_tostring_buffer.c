/* C17 / C04: janet_to_string_b (pp.c) on a buffer value - string / buffer/format %V / xprin with a buffer argument,
 * INCLUDING the buffer being appended to itself: the bytes appended are exactly the bytes the source held when the call was
 * made, read from the block the source owns WHEN THEY ARE READ - making room may move the destination's block, and if source
 * and destination are the same buffer the old block is gone. Recording stubs for the buffer primitives (units seq.buffer.*). */
#include "prelude.h"
static JanetBuffer tb_dst, tb_other; static uint8_t tb_block_a[1], tb_block_b[1], tb_block_c[1];
static uint8_t *tb_freed; static int32_t tb_count0; static int tb_pushes, tb_self, tb_room;
void tb_extra_stub(JanetBuffer *b, int32_t n) {
  __CPROVER_assert(b == &tb_dst && n >= 0, "to_string(buffer): room is made in the destination");
  tb_room = n;
  if (nd_int()) { tb_freed = b->data; b->data = tb_block_b; b->capacity = b->count + n; }   /* realloc may move the block */
}
void tb_push_stub(JanetBuffer *b, const uint8_t *bytes, int32_t n) {
  JanetBuffer *src = tb_self ? &tb_dst : &tb_other;
  __CPROVER_assert(b == &tb_dst, "to_string(buffer): bytes are appended to the destination");
  __CPROVER_assert(tb_freed == (uint8_t *)0 || bytes != tb_freed, "to_string(buffer): the bytes are not read from a block that making room has released");
  __CPROVER_assert(bytes == src->data, "to_string(buffer): the bytes are read from the source's current block");
  __CPROVER_assert(n == tb_count0, "to_string(buffer): exactly the bytes the source held at the call are appended");
  __CPROVER_assert(!tb_self || tb_room >= n, "to_string(buffer): appending a buffer to itself, room for all its bytes was made BEFORE the push (the push must not move the block it reads from)");
  tb_pushes++;
  /* push may itself move the destination when it is not the source (its own contract keeps the source bytes) */
}
void h_to_string_buffer(void) {
  tb_self = nd_int() & 1; tb_freed = (uint8_t *)0; tb_pushes = 0; tb_room = -1;
  tb_dst.data = tb_block_a; tb_dst.count = nd_i32(); tb_dst.capacity = nd_i32();
  __CPROVER_assume(tb_dst.count >= 0 && tb_dst.capacity >= tb_dst.count);
  tb_other.data = tb_block_c; tb_other.count = nd_i32(); tb_other.capacity = nd_i32();
  __CPROVER_assume(tb_other.count >= 0 && tb_other.capacity >= tb_other.count);
  JanetBuffer *src = tb_self ? &tb_dst : &tb_other;
  tb_count0 = src->count;
  Janet x; x.type = JANET_BUFFER; x.as.pointer = src;
  janet_to_string_b(&tb_dst, x);
  __CPROVER_assert(tb_pushes == 1, "to_string(buffer): one append");
  if (tb_self && tb_freed) REACH("self-append with a moved block");
  if (!tb_self) REACH("append of another buffer");
}
