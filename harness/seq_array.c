/* C04/C17: resizable-sequence core of array.c under contract (dfcc). See seq_common.h for wf_array. */
#include "seq_common.h"

#define A_ELEM(a, i) (((uint64_t *)(a)->data)[i])

/* janet_array_ensure(array, capacity, growth), growth >= 1 (every in-tree caller passes 1 or 2; array/ensure
 * passes a user value - see unit cfun.array.ensure): afterwards the array can hold `capacity` elements, the
 * invariant holds, count is unchanged and every element below count is unchanged (ghost index). */
void janet_array_ensure_c(JanetArray *array, int32_t capacity, int32_t growth)
__CPROVER_requires(__CPROVER_is_fresh(array, sizeof(*array)) && WF_ARRAY_REQ(array))
__CPROVER_requires(growth >= 1)
__CPROVER_requires(g_oldcap == array->capacity)
__CPROVER_requires(g_re_elem == ((g_idx >= 0 && g_idx < array->count) ? 1 : 0))
__CPROVER_requires((g_idx >= 0 && g_idx < array->count) ==> A_ELEM(array, g_idx) == g_val)
__CPROVER_assigns(array->data, array->capacity, janet_vm.next_collection)
__CPROVER_frees(array->data)
__CPROVER_ensures(WF_ARRAY_ENS(array))
__CPROVER_ensures(array->capacity >= capacity && array->capacity >= __CPROVER_old(array->capacity))
__CPROVER_ensures(array->count == __CPROVER_old(array->count))
__CPROVER_ensures(capacity <= __CPROVER_old(array->capacity) ==> array->capacity == __CPROVER_old(array->capacity))
__CPROVER_ensures((g_idx >= 0 && g_idx < array->count) ==> A_ELEM(array, g_idx) == g_val)
;

void h_array_ensure(void) {
  JanetArray *a; int32_t c = nd_i32(), g = nd_i32();
  janet_array_ensure(a, c, g);
  REACH("janet_array_ensure returns");
  if (c > g_oldcap) REACH("janet_array_ensure returns after growing");
}

#define NIL_BITS 0xFFF8800000000001ULL      /* janet_wrap_nil().u64, asserted in h_array_setcount */

/* janet_array_setcount(array, count): negative count is ignored; otherwise the length becomes count, elements
 * below min(old,new) are unchanged, every new element is nil (ghost index covers both ranges). */
void janet_array_setcount_c(JanetArray *array, int32_t count)
__CPROVER_requires(__CPROVER_is_fresh(array, sizeof(*array)) && WF_ARRAY_REQ(array))
__CPROVER_requires(g_oldcount == array->count)
__CPROVER_requires(g_re_elem == ((g_idx >= 0 && g_idx < array->count) ? 1 : 0))
__CPROVER_requires((g_idx >= 0 && g_idx < array->count) ==> A_ELEM(array, g_idx) == g_val)
__CPROVER_assigns(array->data, array->capacity, array->count, janet_vm.next_collection; array->capacity > 0: __CPROVER_object_whole(array->data))
__CPROVER_frees(array->data)
__CPROVER_ensures(WF_ARRAY_ENS(array))
__CPROVER_ensures(array->count == (count < 0 ? g_oldcount : count))
__CPROVER_ensures((g_idx >= 0 && g_idx < g_oldcount && g_idx < array->count) ==> A_ELEM(array, g_idx) == g_val)
__CPROVER_ensures((g_idx >= g_oldcount && g_idx < array->count) ==> A_ELEM(array, g_idx) == NIL_BITS)
;

void h_array_setcount(void) {
  JanetArray *a; int32_t c = nd_i32();
  __CPROVER_assert(janet_wrap_nil().u64 == NIL_BITS, "nil bit pattern used in the contracts");
  janet_array_setcount(a, c);
  REACH("janet_array_setcount returns");
  if (c > g_oldcount) REACH("janet_array_setcount returns after extending");
}

/* janet_array_push: returns normally only if count < INT32_MAX; appends x; prefix unchanged */
void janet_array_push_c(JanetArray *array, Janet x)
__CPROVER_requires(__CPROVER_is_fresh(array, sizeof(*array)) && WF_ARRAY_REQ(array))
__CPROVER_requires(g_oldcount == array->count)
__CPROVER_requires(g_re_elem == ((g_idx >= 0 && g_idx < array->count) ? 1 : 0))
__CPROVER_requires((g_idx >= 0 && g_idx < array->count) ==> A_ELEM(array, g_idx) == g_val)
__CPROVER_assigns(array->data, array->capacity, array->count, janet_vm.next_collection; array->capacity > 0: __CPROVER_object_whole(array->data))
__CPROVER_frees(array->data)
__CPROVER_ensures(WF_ARRAY_ENS(array))
__CPROVER_ensures(g_oldcount < INT32_MAX && array->count == g_oldcount + 1)
__CPROVER_ensures(A_ELEM(array, g_oldcount) == x.u64)
__CPROVER_ensures((g_idx >= 0 && g_idx < g_oldcount) ==> A_ELEM(array, g_idx) == g_val)
;

void h_array_push(void) {
  JanetArray *a; Janet x; x.u64 = nd_u64();
  janet_array_push(a, x);
  REACH("janet_array_push returns");
}

/* janet_array_pop / peek: last element or nil when empty; pop shortens by one, nothing else changes */
Janet janet_array_pop_c(JanetArray *array)
__CPROVER_requires(__CPROVER_is_fresh(array, sizeof(*array)) && WF_ARRAY_REQ(array))
__CPROVER_requires(g_oldcount == array->count)
__CPROVER_requires((g_idx >= 0 && g_idx < array->count) ==> A_ELEM(array, g_idx) == g_val)
__CPROVER_assigns(array->count)
__CPROVER_ensures(WF_ARRAY_ENS(array))
__CPROVER_ensures(g_oldcount == 0 ==> (array->count == 0 && __CPROVER_return_value.u64 == NIL_BITS))
__CPROVER_ensures(g_oldcount > 0 ==> (array->count == g_oldcount - 1 && __CPROVER_return_value.u64 == A_ELEM(array, g_oldcount - 1)))
__CPROVER_ensures((g_idx >= 0 && g_idx < g_oldcount) ==> A_ELEM(array, g_idx) == g_val)
;
Janet janet_array_peek_c(JanetArray *array)
__CPROVER_requires(__CPROVER_is_fresh(array, sizeof(*array)) && WF_ARRAY_REQ(array))
__CPROVER_requires(g_oldcount == array->count)
__CPROVER_assigns()
__CPROVER_ensures(WF_ARRAY_ENS(array) && array->count == g_oldcount)
__CPROVER_ensures(g_oldcount == 0 ==> __CPROVER_return_value.u64 == NIL_BITS)
__CPROVER_ensures(g_oldcount > 0 ==> __CPROVER_return_value.u64 == A_ELEM(array, g_oldcount - 1))
;
void h_array_pop(void) { JanetArray *a; Janet r = janet_array_pop(a); REACH("janet_array_pop returns"); }
void h_array_peek(void) { JanetArray *a; Janet r = janet_array_peek(a); REACH("janet_array_peek returns"); }
