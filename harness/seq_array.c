/* C04/C17: resizable-sequence core of array.c under contract (dfcc). See seq_common.h for wf_array. */
#include "seq_common.h"

#define GHOST_IN(a) (g_idx >= 0 && g_idx < (a)->count)
#define A_PRE(array) \
  __CPROVER_requires(WF_ARRAY(array)) \
  __CPROVER_requires(g_oldcount == array->count && g_oldcap == array->capacity) \
  __CPROVER_requires(GHOST_IN(array) ==> A_ELEM(array, g_idx) == g_val)
#define A_FRAME(array) \
  __CPROVER_assigns(array->data, array->capacity, array->count, janet_vm.next_collection; array->capacity > 0: __CPROVER_object_whole(array->data)) \
  __CPROVER_frees(array->data)

/* janet_array_ensure(array, capacity, growth), growth >= 1 (every in-tree caller passes 1 or 2; array/ensure
 * passes a user value - see unit seq.cfun.array.ensure): afterwards the array can hold `capacity` elements, the
 * invariant holds, count is unchanged and every element below count is unchanged (ghost index). */
void janet_array_ensure_c(JanetArray *array, int32_t capacity, int32_t growth)
A_PRE(array)
__CPROVER_requires(growth >= 1)
__CPROVER_assigns(array->data, array->capacity, janet_vm.next_collection)
__CPROVER_frees(array->data)
__CPROVER_ensures(WF_ARRAY(array))
__CPROVER_ensures(array->capacity >= capacity && array->capacity >= g_oldcap)
__CPROVER_ensures(array->count == g_oldcount)
__CPROVER_ensures(capacity <= g_oldcap ==> array->capacity == g_oldcap)
__CPROVER_ensures(GHOST_IN(array) ==> A_ELEM(array, g_idx) == g_val)
;
void h_array_ensure(void) {
  JanetArray *a = mk_array(); int32_t c = nd_i32(), g = nd_i32();
  janet_array_ensure(a, c, g);
  REACH("janet_array_ensure returns");
  if (c > g_oldcap) REACH("janet_array_ensure returns after growing");
}

/* janet_array_setcount(array, count): negative count is ignored; otherwise the length becomes count, elements
 * below min(old,new) are unchanged, every new element is nil (the ghost index covers both ranges). */
void janet_array_setcount_c(JanetArray *array, int32_t count)
A_PRE(array)
A_FRAME(array)
__CPROVER_ensures(WF_ARRAY(array))
__CPROVER_ensures(array->count == (count < 0 ? g_oldcount : count))
__CPROVER_ensures((g_idx >= 0 && g_idx < g_oldcount && g_idx < array->count) ==> A_ELEM(array, g_idx) == g_val)
__CPROVER_ensures((g_idx >= g_oldcount && g_idx < array->count) ==> A_ELEM(array, g_idx) == NIL_BITS)
;
void h_array_setcount(void) {
  JanetArray *a = mk_array(); int32_t c = nd_i32();
  SEQ_CHECK_NIL();
  janet_array_setcount(a, c);
  REACH("janet_array_setcount returns");
  if (c > g_oldcount) REACH("janet_array_setcount returns after extending");
}

/* janet_array_push: returns normally only if count < INT32_MAX; appends x; prefix unchanged */
void janet_array_push_c(JanetArray *array, Janet x)
A_PRE(array)
A_FRAME(array)
__CPROVER_ensures(WF_ARRAY(array))
__CPROVER_ensures(g_oldcount < INT32_MAX && array->count == g_oldcount + 1)
__CPROVER_ensures(A_ELEM(array, g_oldcount) == x.u64)
__CPROVER_ensures((g_idx >= 0 && g_idx < g_oldcount) ==> A_ELEM(array, g_idx) == g_val)
;
void h_array_push(void) {
  JanetArray *a = mk_array(); Janet x; x.u64 = nd_u64();
  janet_array_push(a, x);
  REACH("janet_array_push returns");
  if (a->capacity != g_oldcap) REACH("janet_array_push returns after growing");
}

/* janet_array_pop / peek: last element, or nil when empty; pop shortens by one, nothing else changes */
Janet janet_array_pop_c(JanetArray *array)
A_PRE(array)
__CPROVER_assigns(array->count)
__CPROVER_ensures(WF_ARRAY(array) && array->capacity == g_oldcap)
__CPROVER_ensures(g_oldcount == 0 ==> (array->count == 0 && __CPROVER_return_value.u64 == NIL_BITS))
__CPROVER_ensures(g_oldcount > 0 ==> (array->count == g_oldcount - 1 && __CPROVER_return_value.u64 == A_ELEM(array, g_oldcount - 1)))
__CPROVER_ensures((g_idx >= 0 && g_idx < g_oldcount) ==> A_ELEM(array, g_idx) == g_val)
;
Janet janet_array_peek_c(JanetArray *array)
A_PRE(array)
__CPROVER_assigns()
__CPROVER_ensures(WF_ARRAY(array) && array->count == g_oldcount && array->capacity == g_oldcap)
__CPROVER_ensures(g_oldcount == 0 ==> __CPROVER_return_value.u64 == NIL_BITS)
__CPROVER_ensures(g_oldcount > 0 ==> __CPROVER_return_value.u64 == A_ELEM(array, g_oldcount - 1))
;
void h_array_pop(void) { JanetArray *a = mk_array(); SEQ_CHECK_NIL(); Janet r = janet_array_pop(a); REACH("janet_array_pop returns"); }
void h_array_peek(void) { JanetArray *a = mk_array(); SEQ_CHECK_NIL(); Janet r = janet_array_peek(a); REACH("janet_array_peek returns"); }
