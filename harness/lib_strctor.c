/* C17 (C level): the string constructors of string.c under contract - the contracts the units of lib_string.c assume
 * (stubs janet_string_begin_stub / janet_string_end_stub / janet_string_stub there).
 *   janet_string_begin(length), length >= 0: one janet_gcalloc of exactly header + length + 1 bytes (no overflow), header
 *       length == length, terminating NUL written, returns the data pointer of that block
 *   janet_string(buf, len), len >= 0, buf readable for len bytes: same block shape, content == buf (pointwise, ghost
 *       offset g_mm), hash == janet_string_calchash(buf, len) (the value the hash function returned), source unchanged
 *   janet_string_end(str): stores janet_string_calchash(str, length) in the header, returns str
 * Trusted: janet_gcalloc returns a fresh block of the requested size; janet_string_calchash returns an arbitrary value
 * (recorded); memcpy model of seq_common.h. */
#include "seq_common.h"
void *g_block; size_t g_block_size; int g_allocs;
void *janet_gcalloc(enum JanetMemoryType type, size_t size) {
  __CPROVER_assert(type == JANET_MEMORY_STRING, "string block type");
  void *p = malloc(size);
  __CPROVER_assume(p != SEQ_NULL);
  g_block = p; g_block_size = size; g_allocs++;
  return p;
}
int32_t g_hash; const uint8_t *g_hash_arg; int32_t g_hash_len;
int32_t janet_string_calchash(const uint8_t *str, int32_t len) {
  __CPROVER_assert(len >= 0 && (len == 0 || __CPROVER_r_ok(str, (size_t)len)), "janet_string_calchash precondition: readable for len bytes");
  g_hash_arg = str; g_hash_len = len; g_hash = nd_i32();
  return g_hash;
}
#define HEAD ((JanetStringHead *)g_block)
void h_string_begin(void) {
  int32_t length = nd_i32();
  __CPROVER_assume(length >= 0);
  g_allocs = 0;
  uint8_t *p = janet_string_begin(length);
  REACH("janet_string_begin returns");
  __CPROVER_assert(g_allocs == 1 && g_block_size == sizeof(JanetStringHead) + (size_t)length + 1, "C17: janet_string_begin allocates header + length + 1 bytes");
  __CPROVER_assert(p == HEAD->data && HEAD->length == length && p[length] == 0, "C17: janet_string_begin returns the data of a block with the length stored and the NUL written");
  if (length > 2) REACH("janet_string_begin returns for a length above two");
}
void h_string_copy(void) {
  int32_t len = nd_i32();
  __CPROVER_assume(len >= 0);
  uint8_t *src = malloc((size_t)len);
  __CPROVER_assume(src != SEQ_NULL);
  uint8_t old; size_t k = nd_size();
  g_mm = nd_size();
  if (k < (size_t)len) old = src[k];
  g_allocs = 0;
  const uint8_t *p = janet_string(src, len);
  REACH("janet_string returns");
  __CPROVER_assert(g_allocs == 1 && g_block_size == sizeof(JanetStringHead) + (size_t)len + 1, "C17: janet_string allocates header + length + 1 bytes");
  __CPROVER_assert(p == HEAD->data && HEAD->length == len && p[len] == 0, "C17: janet_string returns the data of a block with the length stored and the NUL written");
  __CPROVER_assert(HEAD->hash == g_hash && g_hash_arg == src && g_hash_len == len, "C17: janet_string stores the hash of the source bytes");
  if (g_mm < (size_t)len) __CPROVER_assert(p[g_mm] == src[g_mm], "C17: janet_string copies the source bytes");
  if (k < (size_t)len) __CPROVER_assert(src[k] == old, "C17: janet_string leaves the source unmodified");
  if (len > 2) REACH("janet_string returns for a length above two");
}
void h_string_end(void) {
  int32_t length = nd_i32();
  __CPROVER_assume(length >= 0);
  uint8_t *p = janet_string_begin(length);
  const uint8_t *q = janet_string_end(p);
  REACH("janet_string_end returns");
  __CPROVER_assert(q == p && HEAD->hash == g_hash && g_hash_arg == p && g_hash_len == length && HEAD->length == length && p[length] == 0,
                   "C17: janet_string_end stores the hash of the string's bytes and returns the string");
}
