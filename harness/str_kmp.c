/* C17 (C level), substring search of string.c: kmp_init / kmp_next / kmp_seti - the engine behind string/find,
 * string/find-all, string/replace, string/replace-all and string/split.
 *
 * Reference definitions (independent of the implementation, written from the documented meaning):
 *   border(p, k)        = the largest b < k+1 such that p[0..b) == p[k+1-b..k+1)   (the KMP failure table entry k)
 *   occurs(t, n, p, m, r) = r >= 0, r + m <= n and t[r+q] == p[q] for all q < m
 *   ref_find(.., from)  = the smallest r >= from with occurs(r), or -1
 * Units:
 *   str.kmp.init.table   kmp_init: raises for the empty pattern, otherwise sets up the state (i = j = 0, text/pattern
 *                        recorded) and lookup[k] == border(pat, k) for every k, hence 0 <= lookup[k] <= k
 *                        (bounded: every pattern of length <= KMP_MAXPAT, all byte contents)
 *   str.kmp.search.exact the sequence of results of kmp_next equals the reference search: the first call (after a start
 *                        index was stored in state->i, as findsetup/replacesetup do) returns the first occurrence at or
 *                        after start; after a hit the caller either continues (string/find-all: next result is the
 *                        first occurrence after r, overlapping ones included) or calls kmp_seti(r + patlen)
 *                        (replace-all, split: next result is the first occurrence at or after r + patlen); -1 only when
 *                        there is none. state->i == r + patlen after a hit.
 *                        (bounded: text <= KMP_MAXTEXT bytes, pattern <= KMP_MAXPAT bytes, all contents, all starts)
 * Inputs are malloc'd blocks of exactly the stated length, so every out-of-range read is a failed pointer obligation. */
#include "prelude.h"
#include <stdlib.h>

#ifndef KMP_MAXPAT
#define KMP_MAXPAT 6
#endif
#ifndef KMP_MAXTEXT
#define KMP_MAXTEXT 8
#endif
#define STR_NULL ((void *)0)

static int ref_is_border(const uint8_t *p, int32_t k, int32_t b) {
  for (int32_t q = 0; q < b; q++)
    if (p[q] != p[k + 1 - b + q]) return 0;
  return 1;
}
static int32_t ref_border(const uint8_t *p, int32_t k) {
  for (int32_t b = k; b > 0; b--)
    if (ref_is_border(p, k, b)) return b;
  return 0;
}
static int ref_occurs(const uint8_t *t, int32_t n, const uint8_t *p, int32_t m, int32_t r) {
  if (r < 0 || r + m > n) return 0;
  for (int32_t q = 0; q < m; q++)
    if (t[r + q] != p[q]) return 0;
  return 1;
}
static int32_t ref_find(const uint8_t *t, int32_t n, const uint8_t *p, int32_t m, int32_t from) {
  for (int32_t r = from; r + m <= n; r++)
    if (ref_occurs(t, n, p, m, r)) return r;
  return -1;
}

static uint8_t *mk_bytes(int32_t n) {
  uint8_t *p = malloc((size_t)n);      /* content nondeterministic */
  __CPROVER_assume(p != STR_NULL);
  return p;
}

void h_kmp_init_table(void) {
  int32_t patlen = nd_i32(), textlen = nd_i32();
  __CPROVER_assume(patlen >= 0 && patlen <= KMP_MAXPAT && textlen >= 0);
  uint8_t *pat = mk_bytes(patlen);
  uint8_t *text = mk_bytes(0);         /* kmp_init must not read the text */
  struct kmp_state *s = malloc(sizeof(struct kmp_state));
  __CPROVER_assume(s != STR_NULL);
  kmp_init(s, text, textlen, pat, patlen);
  REACH("kmp_init returns");
  __CPROVER_assert(patlen > 0, "C17: the empty pattern is rejected (raises)");
  __CPROVER_assert(s->i == 0 && s->j == 0 && s->textlen == textlen && s->patlen == patlen && s->text == text && s->pat == pat,
                   "C17: kmp_init records text and pattern and starts at position 0 with nothing matched");
  int32_t k = nd_i32();
  __CPROVER_assume(k >= 0 && k < patlen);
  __CPROVER_assert(s->lookup[k] >= 0 && s->lookup[k] <= k, "C17: failure table entry in range 0 <= lookup[k] <= k");
  __CPROVER_assert(s->lookup[k] == ref_border(pat, k), "C17: failure table entry is the longest proper border of pat[0..k]");
  if (patlen >= 4 && s->lookup[patlen - 2] >= 2 && s->lookup[patlen - 1] == 0) REACH("kmp_init returns for a pattern needing repeated fallback");
  kmp_deinit(s);
}

void h_kmp_search(void) {
  int32_t patlen = nd_i32(), textlen = nd_i32(), start = nd_i32();
  __CPROVER_assume(patlen >= 1 && patlen <= KMP_MAXPAT && textlen >= 0 && textlen <= KMP_MAXTEXT && start >= 0 && start <= KMP_MAXTEXT + 1);
  uint8_t *pat = mk_bytes(patlen);
  uint8_t *text = mk_bytes(textlen);
  struct kmp_state *s = malloc(sizeof(struct kmp_state));
  __CPROVER_assume(s != STR_NULL);
  kmp_init(s, text, textlen, pat, patlen);
  s->i = start;                        /* findsetup / replacesetup */
  int32_t from = start;
  int hits = 0;
  for (int n = 0; n <= KMP_MAXTEXT; n++) {
    int32_t r = kmp_next(s);
    __CPROVER_assert(r == ref_find(text, textlen, pat, patlen, from),
                     "C17: kmp_next returns the first occurrence not before the resume point, -1 iff there is none");
    if (r < 0) break;
    hits++;
    __CPROVER_assert(s->i == r + patlen, "C17: after a hit the scan position is just behind the occurrence");
    if (nd_int()) {
      from = r + 1;                    /* string/find-all: keep going, overlapping occurrences count */
    } else {
      from = r + patlen;               /* string/replace-all, string/split: resume behind the occurrence */
      kmp_seti(s, from);
    }
  }
  REACH("search sequence ends");
  if (hits >= 2) REACH("search sequence with at least two hits");
  kmp_deinit(s);
}
