/* C17 (C level), substring search of string.c: kmp_init / kmp_next / kmp_seti - the engine behind string/find,
 * string/find-all, string/replace, string/replace-all and string/split.
 *
 * Reference definitions (independent of the implementation, written from the documented meaning):
 *   border(p, k)        = the largest b < k+1 such that p[0..b) == p[k+1-b..k+1)   (the KMP failure table entry k)
 *   occurs(t, n, p, m, r) = r >= 0, r + m <= n and t[r+q] == p[q] for all q < m
 *   ref_find(.., from)  = the smallest r >= from with occurs(r), or -1
 * Units:
 *   str.kmp.init.table   kmp_init: raises for the empty pattern, otherwise sets up the state (i = j = 0, text/pattern
 *                        recorded) and lookup[k] == border(pat, k) for every k, hence 0 <= lookup[k] <= k
 *                        (bounded: every pattern of length <= KMP_TABLE_MAXPAT, all byte contents)
 *   str.kmp.search.exact.pN (N = pattern length 1..4) the sequence of results of kmp_next equals the reference search:
 *                        the first call (after a start index was stored in state->i, as findsetup/replacesetup do)
 *                        returns the first occurrence at or after start; after a hit the caller either continues
 *                        (string/find-all: next result is the first occurrence after r, overlapping ones included) or
 *                        calls kmp_seti(r + patlen) (replace-all, split: next result is the first occurrence at or
 *                        after r + patlen); -1 only when there is none (see check_search for the induction).
 *                        (bounded: text <= KMP_MAXTEXT bytes, all contents, all starts)
 * Inputs are malloc'd blocks of exactly the stated length, so every out-of-range read is a failed pointer obligation. */
#include "prelude.h"
#include <stdlib.h>

#define KMP_TABLE_MAXPAT 8    /* str.kmp.init.table: pattern lengths 0..8 (the switch in h_kmp_init_table) */
#define KMP_MAXPAT 4          /* str.kmp.search.exact: pattern lengths 1..4, text lengths 0..8 (the switch in h_kmp_search) */
#define KMP_MAXTEXT 8
#define STR_NULL ((void *)0)

static int ref_is_border(const uint8_t *p, int32_t k, int32_t b) {
  for (int32_t q = 0; q < b; q++)
    if (p[q] != p[k + 1 - b + q]) return 0;
  return 1;
}
static int32_t ref_border(const uint8_t *p, int32_t k) {
  for (int32_t b = k; b > 0; b--)
    if (ref_is_border(p, k, b)) return b;
  return 0;
}
static int ref_occurs(const uint8_t *t, int32_t n, const uint8_t *p, int32_t m, int32_t r) {
  if (r < 0 || r + m > n) return 0;
  for (int32_t q = 0; q < m; q++)
    if (t[r + q] != p[q]) return 0;
  return 1;
}
static int32_t ref_find(const uint8_t *t, int32_t n, const uint8_t *p, int32_t m, int32_t from) {
  for (int32_t r = from; r + m <= n; r++)
    if (ref_occurs(t, n, p, m, r)) return r;
  return -1;
}

/* Sizes: CBMC's array theory is cheap for objects of CONSTANT size and ruinous for the symbolic-size blocks used first
 * (6-7M SAT variables). The harnesses therefore branch over the lengths and run the real code once per length with
 * blocks of exactly that (constant) size - every length up to the bound is covered, every block is exact, so each
 * access past a block is a failed pointer obligation. */
static uint8_t *mk_bytes(size_t n) {
  uint8_t *p = malloc(n);              /* content nondeterministic */
  __CPROVER_assume(p != STR_NULL);
  return p;
}
/* calloc model (assumed): a fresh zero-filled block of exactly n * sz bytes, or NULL */
void *calloc(size_t n, size_t sz) {
  if (nd_int()) return STR_NULL;
  uint8_t *p = malloc(n * sz);
  __CPROVER_assume(p != STR_NULL);
  for (size_t q = 0; q < n * sz; q++) p[q] = 0;
  return p;
}

static void check_init_table(int32_t patlen) {
  int32_t textlen = nd_i32();
  __CPROVER_assume(textlen >= 0);
  uint8_t *pat = mk_bytes((size_t)patlen);
  uint8_t *text = mk_bytes(0);         /* kmp_init must not read the text */
  struct kmp_state *s = malloc(sizeof(struct kmp_state));
  __CPROVER_assume(s != STR_NULL);
  kmp_init(s, text, textlen, pat, patlen);
  REACH("kmp_init returns");
  __CPROVER_assert(patlen > 0, "C17: the empty pattern is rejected (raises)");
  __CPROVER_assert(s->i == 0 && s->j == 0 && s->textlen == textlen && s->patlen == patlen && s->text == text && s->pat == pat,
                   "C17: kmp_init records text and pattern and starts at position 0 with nothing matched");
  int32_t k = nd_i32();
  __CPROVER_assume(k >= 0 && k < patlen);
  __CPROVER_assert(s->lookup[k] >= 0 && s->lookup[k] <= k, "C17: failure table entry in range 0 <= lookup[k] <= k");
  __CPROVER_assert(s->lookup[k] == ref_border(pat, k), "C17: failure table entry is the longest proper border of pat[0..k]");
  if (patlen >= 4 && s->lookup[patlen - 2] >= 2 && s->lookup[patlen - 1] == 0) REACH("kmp_init returns for a pattern needing repeated fallback");
  kmp_deinit(s);
}
void h_kmp_init_table(void) {
  switch (nd_int()) {
    case 0: check_init_table(0); break;
    case 1: check_init_table(1); break;
    case 2: check_init_table(2); break;
    case 3: check_init_table(3); break;
    case 4: check_init_table(4); break;
    case 5: check_init_table(5); break;
    case 6: check_init_table(6); break;
    case 7: check_init_table(7); break;
    case 8: check_init_table(8); break;
    default: break;
  }
}

/* One step of the search sequence from each of the two kinds of state a caller can be in:
 *   fresh  : state->i = start, state->j = 0 (after findsetup/replacesetup stored the start index, or after kmp_seti)
 *   resumed: directly after a hit at r (r any real occurrence): i = r + patlen, j = lookup[patlen - 1]
 * The fresh step proves that a hit leaves exactly the resumed state, so by induction over the calls the whole result
 * sequence of string/find-all (resumed steps) and of replace-all/split (kmp_seti, fresh steps) equals the reference. */
static void check_search(int32_t patlen, int32_t textlen) {
  int32_t start = nd_i32();
  __CPROVER_assume(start >= 0 && start <= KMP_MAXTEXT + 1);
  uint8_t *pat = mk_bytes((size_t)patlen);
  uint8_t *text = mk_bytes((size_t)textlen);
  struct kmp_state *s = malloc(sizeof(struct kmp_state));
  __CPROVER_assume(s != STR_NULL);
  kmp_init(s, text, textlen, pat, patlen);
  int32_t from;
#ifdef KMP_KIND
  int resumed = KMP_KIND;             /* unit split: 0 fresh, 1 resumed */
#else
  int resumed = nd_int();
#endif
  if (resumed) {
    __CPROVER_assume(ref_occurs(text, textlen, pat, patlen, start));
    s->i = start + patlen;
    s->j = s->lookup[patlen - 1];
    from = start + 1;                  /* overlapping occurrences count */
  } else if (nd_int()) {
    s->i = start;                      /* findsetup / replacesetup */
    from = start;
  } else {
    kmp_seti(s, start);                /* replace-all / split */
    from = start;
  }
  int32_t r = kmp_next(s);
  __CPROVER_assert(r == ref_find(text, textlen, pat, patlen, from),
                   "C17: kmp_next returns the first occurrence not before the resume point, -1 iff there is none");
  if (r >= 0) {
    __CPROVER_assert(s->i == r + patlen && s->j == s->lookup[patlen - 1], "C17: a hit leaves the resume state (scan position just behind the occurrence)");
    REACH("kmp_next returns a hit");
    if (resumed) REACH("kmp_next returns a second hit");
  } else {
    REACH("kmp_next returns no hit");
  }
  kmp_deinit(s);
}
#define SEARCH_CASES(m) \
  case 10 * m + 0: check_search(m, 0); break; case 10 * m + 1: check_search(m, 1); break; case 10 * m + 2: check_search(m, 2); break; \
  case 10 * m + 3: check_search(m, 3); break; case 10 * m + 4: check_search(m, 4); break; case 10 * m + 5: check_search(m, 5); break; \
  case 10 * m + 6: check_search(m, 6); break; case 10 * m + 7: check_search(m, 7); break; case 10 * m + 8: check_search(m, 8); break;
void h_kmp_search(void) {
  switch (nd_int()) {
#ifdef KMP_PATLEN
    SEARCH_CASES(KMP_PATLEN)           /* one unit per pattern length (the union of all 36 cases did not solve in 5 min) */
#else
    SEARCH_CASES(1) SEARCH_CASES(2) SEARCH_CASES(3) SEARCH_CASES(4)
#endif
    default: break;
  }
}
