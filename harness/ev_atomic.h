/* Assumed sequential model of capi.c's atomic helpers (each is a single GCC __atomic builtin with relaxed/acq-rel order;
 * goto-instrument --dfcc has no body for the type-generic builtins). Single-threaded meaning only: C20 is claimed as
 * "counter discipline", not as a statement about inter-thread interleavings. */
#ifndef VC_EV_ATOMIC_H
#define VC_EV_ATOMIC_H
JanetAtomicInt janet_atomic_inc(JanetAtomicInt volatile *x) { *x = *x + 1; return *x; }
JanetAtomicInt janet_atomic_dec(JanetAtomicInt volatile *x) { *x = *x - 1; return *x; }
JanetAtomicInt janet_atomic_load(JanetAtomicInt volatile *x) { return *x; }
#endif
