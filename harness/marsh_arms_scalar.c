/* C10/C09: the scalar arms of unmarshal_one (marsh.c): small integers, LB_INTEGER, LB_REAL, LB_NIL/LB_FALSE/LB_TRUE, the
 * unsafe arms (LB_UNSAFE_CFUNCTION, LB_UNSAFE_POINTER, LB_THREADED_ABSTRACT, LB_POINTER_BUFFER) and unassigned lead bytes.
 * The REAL unmarshal_one and readint run on an exactly-sized symbolic input (marsh_arms.h); nothing is stubbed except
 * janet_v_grow (allocation contract). Shipped value representation (nan-boxing) unless the unit says otherwise. */
#include "marsh_arms.h"
#include <math.h>
static const uint8_t *unmarshal_one__entry(UnmarshalState *st, const uint8_t *data, Janet *out, int flags);
/* the scalar arms never recurse: a recursive call is a contract violation */
const uint8_t *ma_norec_stub(UnmarshalState *st, const uint8_t *data, Janet *out, int flags) { __CPROVER_assert(0, "C10 scalar arm: no nested value is read"); __CPROVER_assume(0); return data; }

/* lead byte < 200: the value is the integer the varint denotes (what marshal's pushint wrote), the cursor advances by exactly
 * the encoding, nothing is numbered. 192..199 are not integers: refused. */
void h_arm_smallint(void) {
  UnmarshalState st; Janet out = janet_wrap_nil(); ma_setup(&st); int flags = nd_int();
  if (ma_off < ma_n) __CPROVER_assume(MA_B(0) < LB_REAL);
  const uint8_t *ret = unmarshal_one__entry(&st, MA_CUR, &out, flags);
  MA_DEPTH_OK(flags);
  __CPROVER_assert(ma_off < ma_n, "C10 small integer: nothing is read from an exhausted input");
  uint8_t b0 = MA_B(0);
  __CPROVER_assert(b0 < 192, "C10 small integer: lead bytes 192..199 denote nothing and are refused");
  __CPROVER_assert(janet_checktype(out, JANET_NUMBER), "C10 small integer: the result is a number");
  if (b0 < 128) {
    __CPROVER_assert(ret == MA_CUR + 1 && janet_unwrap_number(out) == (double) b0, "C09 small integer: one byte b < 128 reads back as b and consumes one byte");
    REACH("one-byte integer");
  } else {
    __CPROVER_assert(ma_off + 1 < ma_n, "C10 small integer: the second byte of a two-byte integer lies inside the input");
    int32_t v = (int32_t)((((b0 & 0x3F) << 8) | MA_B(1)) ^ 0x2000) - 0x2000;
    __CPROVER_assert(ret == MA_CUR + 2 && janet_unwrap_number(out) == (double) v, "C09 small integer: two bytes read back as the sign-extended 14-bit value and consume two bytes");
    REACH("two-byte integer");
  }
  MA_ASSERT_NOT_PUSHED(st, "C09 small integer: integers are not numbered for back references");
}

/* LB_INTEGER: 4 bytes big endian after the lead byte */
void h_arm_integer(void) {
  UnmarshalState st; Janet out = janet_wrap_nil(); ma_setup(&st); int flags = nd_int();
  if (ma_off < ma_n) __CPROVER_assume(MA_B(0) == LB_INTEGER);
  const uint8_t *ret = unmarshal_one__entry(&st, MA_CUR, &out, flags);
  MA_DEPTH_OK(flags);
  __CPROVER_assert(ma_off < ma_n && ma_off + 4 < ma_n, "C10 long integer: all four value bytes lie inside the input");
  int32_t v = (int32_t)(((uint32_t) MA_B(1) << 24) | ((uint32_t) MA_B(2) << 16) | ((uint32_t) MA_B(3) << 8) | (uint32_t) MA_B(4));
  __CPROVER_assert(janet_checktype(out, JANET_NUMBER) && janet_unwrap_number(out) == (double) v, "C09 long integer: reads back as the big-endian 32-bit two's complement value");
  __CPROVER_assert(ret == MA_CUR + 5, "C10 long integer: consumes exactly five bytes");
  MA_ASSERT_NOT_PUSHED(st, "C09 long integer: integers are not numbered for back references");
  REACH("long integer");
}

/* LB_REAL: 8 bytes, little endian IEEE double. Whatever the 8 bytes are, the result is of type NUMBER (no nan-boxed pointer
 * can be forged); bytes that are not a NaN read back bit for bit; the value is numbered exactly once (marshal numbers reals). */
void h_arm_real(void) {
  UnmarshalState st; Janet out = janet_wrap_nil(); ma_setup(&st); int flags = nd_int();
  if (ma_off < ma_n) __CPROVER_assume(MA_B(0) == LB_REAL);
  const uint8_t *ret = unmarshal_one__entry(&st, MA_CUR, &out, flags);
  MA_DEPTH_OK(flags);
  __CPROVER_assert(ma_off < ma_n && ma_off + 8 < ma_n, "C10 real: all eight value bytes lie inside the input");
  __CPROVER_assert(janet_checktype(out, JANET_NUMBER) && janet_type(out) == JANET_NUMBER, "C10 real: the result is of type number for every 8-byte pattern");
  union { uint64_t u; double d; } w;
  w.u = (uint64_t) MA_B(1) | ((uint64_t) MA_B(2) << 8) | ((uint64_t) MA_B(3) << 16) | ((uint64_t) MA_B(4) << 24) |
        ((uint64_t) MA_B(5) << 32) | ((uint64_t) MA_B(6) << 40) | ((uint64_t) MA_B(7) << 48) | ((uint64_t) MA_B(8) << 56);
  union { uint64_t u; double d; } r; r.d = janet_unwrap_number(out);
  __CPROVER_assert(isnan(w.d) ? isnan(r.d) : r.u == w.u, "C09 real: a number reads back bit for bit (a NaN as a NaN)");
  __CPROVER_assert(ret == MA_CUR + 9, "C10 real: consumes exactly nine bytes");
  MA_ASSERT_PUSHED_ONCE(st, out, "C09 real: the value gets the next reference number, exactly once", "C09 real: earlier reference numbers keep their values");
  if (ma_grow_calls) REACH("real: the lookup vector had to grow");
  REACH("real");
}

/* LB_NIL / LB_FALSE / LB_TRUE: -DMA_LEAD=<lead byte> -DMA_WANT=<constructor> */
#ifdef MA_WANT
void h_arm_const(void) {
  UnmarshalState st; Janet out = janet_wrap_number(1.0); ma_setup(&st); int flags = nd_int();
  if (ma_off < ma_n) __CPROVER_assume(MA_B(0) == MA_LEAD);
  const uint8_t *ret = unmarshal_one__entry(&st, MA_CUR, &out, flags);
  MA_DEPTH_OK(flags);
  __CPROVER_assert(ma_off < ma_n, "C10 constant: nothing is read from an exhausted input");
  Janet want = MA_WANT();
  __CPROVER_assert(MA_SAME(out, want), "C09 constant: nil / false / true read back as themselves");
  __CPROVER_assert(ret == MA_CUR + 1, "C10 constant: consumes exactly one byte");
  MA_ASSERT_NOT_PUSHED(st, "C09 constant: constants are not numbered for back references");
  REACH("constant");
}
#endif

/* The unsafe arms: a raw C function pointer / raw pointer / pointer to a shared abstract / pointer-backed buffer taken from
 * the bytes. Without JANET_MARSHAL_UNSAFE in flags they are refused (never return normally). With it: all pointer bytes lie
 * inside the input. -DMA_LEAD=<lead byte> */
#ifdef MA_UNSAFE_ARM
void h_arm_unsafe(void) {
  UnmarshalState st; Janet out = janet_wrap_nil(); ma_setup(&st); int flags = nd_int();
  if (ma_off < ma_n) __CPROVER_assume(MA_B(0) == MA_LEAD);
  const uint8_t *ret = unmarshal_one__entry(&st, MA_CUR, &out, flags);
  MA_DEPTH_OK(flags);
  __CPROVER_assert(flags & JANET_MARSHAL_UNSAFE, "C10 unsafe arm: raw pointers in an image are refused unless the caller asked for unsafe unmarshalling");
  __CPROVER_assert(ret > MA_CUR + sizeof(void *) && ret <= ma_in + ma_n, "C10 unsafe arm: the pointer bytes lie inside the input");
  REACH("unsafe arm accepted with JANET_MARSHAL_UNSAFE");
}
#endif

/* lead bytes above the last assigned one are refused: of the lead bytes {LB_TRUE, 233..255} only LB_TRUE is accepted */
void h_arm_unknown(void) {
  UnmarshalState st; Janet out = janet_wrap_nil(); ma_setup(&st); int flags = nd_int();
  __CPROVER_assume(ma_off < ma_n && (MA_B(0) > LB_ARRAY_WEAK || MA_B(0) == LB_TRUE));
  const uint8_t *ret = unmarshal_one__entry(&st, MA_CUR, &out, flags);
  __CPROVER_assert(MA_B(0) == LB_TRUE, "C10 unassigned lead byte: never accepted");
  __CPROVER_assert(ret == MA_CUR + 1, "C10 constant: consumes exactly one byte");
  REACH("the assigned lead byte is accepted");
}

/* The dispatching arms LB_FIBER and LB_ABSTRACT: the lead byte is consumed and the sub-reader continues right behind it;
 * a fiber is read one nesting level deeper (the abstract reader advances the depth itself: unit marsh.api.one_abstract).
 * -DMA_DISPATCH=<0 fiber,1 abstract> with -DMA_FIXED */
#ifdef MA_DISPATCH
int mx_calls, mx_args_ok; JanetFiber mx_fiber; size_t mx_ret; UnmarshalState *mx_st; int mx_flags; Janet mx_val;
const uint8_t *mx_fiber_stub(UnmarshalState *st, const uint8_t *data, JanetFiber **out, int flags) {
  size_t at = (size_t)(data - ma_in);
  mx_calls++; mx_args_ok = (st == mx_st && at == 1 && flags == mx_flags + 1);
  *out = &mx_fiber; size_t k = nd_size(); __CPROVER_assume(at <= ma_n && k <= ma_n - at); mx_ret = at + k; return ma_in + mx_ret;
}
const uint8_t *mx_abstract_stub(UnmarshalState *st, const uint8_t *data, Janet *out, int flags) {
  size_t at = (size_t)(data - ma_in);
  mx_calls++; mx_args_ok = (st == mx_st && at == 1 && flags == mx_flags);
  Janet v; v.type = JANET_ABSTRACT; v.as.u64 = nd_u64(); mx_val = v; *out = v;
  size_t k = nd_size(); __CPROVER_assume(at <= ma_n && k <= ma_n - at); mx_ret = at + k; return ma_in + mx_ret;
}
void h_arm_dispatch(void) {
  UnmarshalState st; Janet out = janet_wrap_nil(); ma_setup(&st); int flags = nd_int(); mx_st = &st; mx_flags = flags;
  const uint8_t *ret = unmarshal_one__entry(&st, MA_CUR, &out, flags);
  MA_DEPTH_OK(flags);
  __CPROVER_assert(ma_n > 0 && mx_calls == 1 && mx_args_ok, "C10/C19 fiber / abstract arm: the sub-reader runs once, on this state, right behind the lead byte; a fiber one nesting level deeper");
  __CPROVER_assert(ret == ma_in + mx_ret, "C10 fiber / abstract arm: the cursor returned is where the sub-reader left it");
#if MA_DISPATCH == 0
  __CPROVER_assert(out.type == JANET_FIBER && out.as.pointer == (void *) &mx_fiber, "C10 fiber arm: the result is the fiber the sub-reader built, tagged fiber");
#else
  __CPROVER_assert(MA_SAME(out, mx_val), "C10 abstract arm: the result is the sub-reader's");
#endif
  MA_ASSERT_NOT_PUSHED(st, "C09 fiber / abstract arm: the arm itself numbers nothing (the sub-reader numbers the object)");
  REACH("dispatching arm");
}
#endif
