/* C04 / C19: table/proto-flatten (janet_table_proto_flatten, table.c) on a CYCLIC prototype chain - a table can be made
 * its own prototype with table/setproto or by a crafted image. "Lookups fall back along the prototype chain" with a
 * depth limit (JANET_MAX_PROTO_DEPTH); flattening must terminate as well: at most that many tables are visited, and on
 * an acyclic chain every table is visited once, nearest first. Recording stubs for the result table. */
#include "prelude.h"
static JanetTable tf_t[3]; static JanetKV tf_kv[3][1]; static JanetTable tf_new;
static int tf_puts; static int tf_first_from;
JanetTable *tf_table_stub(int32_t cap) { return &tf_new; }
void tf_put_stub(JanetTable *t, Janet k, Janet v) {
  __CPROVER_assert(t == &tf_new, "tab.flatten: entries go to the new table");
  if (tf_puts == 0) tf_first_from = (int) v.as.u64;
  tf_puts++;
  /* termination obligation stated on the visit count (an unwinding-assertion failure alone is reported undecided) */
  __CPROVER_assert(tf_puts <= JANET_MAX_PROTO_DEPTH, "tab.flatten: a prototype chain is followed at most JANET_MAX_PROTO_DEPTH steps");
}
void h_proto_flatten(void) {
  /* chain geometry is a compile-time case (one unit per geometry): a symbolic cycle shape over 200 iterations exhausts memory */
  const int n = TF_N, cyc = TF_CYC, back = TF_BACK;
  for (int i = 0; i < 3; i++) {
    tf_t[i].data = tf_kv[i]; tf_t[i].capacity = 1; tf_t[i].count = 1; tf_t[i].deleted = 0;
    tf_kv[i][0].key.type = JANET_KEYWORD; tf_kv[i][0].key.as.u64 = 7; tf_kv[i][0].value.type = JANET_NUMBER; tf_kv[i][0].value.as.u64 = (uint64_t) i;
    tf_t[i].proto = (i + 1 < n) ? &tf_t[i + 1] : (cyc ? &tf_t[back] : (JanetTable *)0);
  }
  tf_puts = 0;
  JanetTable *r = janet_table_proto_flatten(&tf_t[0]);
  __CPROVER_assert(r == &tf_new, "tab.flatten: a new table is returned");
  __CPROVER_assert(tf_puts >= 1 && tf_first_from == 0, "tab.flatten: the table itself comes first (its entries win)");
#if TF_CYC
  __CPROVER_assert(tf_puts <= JANET_MAX_PROTO_DEPTH, "tab.flatten: a cyclic chain is followed at most JANET_MAX_PROTO_DEPTH steps"); REACH("flatten: cyclic chain terminates");
#else
  __CPROVER_assert(tf_puts == n, "tab.flatten: on an acyclic chain every table is visited exactly once"); REACH("flatten: acyclic");
#endif
}
