/* C10/C09: common scaffolding of the marsh_arms_*.c units (arms of unmarshal_one and its helpers, marsh.c).
 * Plain mode: the real function runs on
 *   - (default) an input that is a heap block of EXACTLY ma_n bytes (symbolic, <= MA_MAXN): start = block, end = block + ma_n, so every
 *     read outside [start, end) is an out-of-object read that CBMC's pointer checks report;
 *   - a cursor start + ma_off with symbolic ma_off <= ma_n (ma_off == ma_n: input exhausted);
 *   - a lookup vector that is absent (NULL), has spare room, or is full (janet_v_grow is then an allocation contract).
 * Postconditions are stated over ghost copies of the integers the stubs handed out. */
#ifndef MARSH_ARMS_H
#define MARSH_ARMS_H
#include "prelude.h"
#include <stdlib.h>
#ifndef MA_MAXN
#define MA_MAXN 12
#endif
uint8_t *ma_in; size_t ma_n, ma_off;
/* ---- lookup vector of values: janet_v layout {cap, cnt, items[]} ---- */
struct ma_vec { int32_t cap, cnt; Janet items[8]; };
struct ma_vec ma_v1, ma_v2; int ma_grow_calls; int32_t ma_cnt0;
Janet ma_serial(int k) { return janet_wrap_number((double)(100 + k)); }
/* allocation contract of janet_v_grow (vector.c): a block with room for at least count + increment items that keeps the
 * count and the items; the vector's element size must be the size of what is stored in it */
void *ma_vgrow_stub(void *v, int32_t increment, int32_t itemsize) {
  __CPROVER_assert(increment == 1 && itemsize == (int32_t) sizeof(Janet), "C10 lookup vector: grown by one element of the element type");
  __CPROVER_assert(v == (void *) 0 || v == (void *) ma_v1.items, "C10 lookup vector: the vector that is grown is the state's own vector");
  ma_grow_calls++;
  ma_v2.cap = 8; ma_v2.cnt = v ? ma_v1.cnt : 0;
  if (v) { ma_v2.items[0] = ma_v1.items[0]; ma_v2.items[1] = ma_v1.items[1]; ma_v2.items[2] = ma_v1.items[2]; ma_v2.items[3] = ma_v1.items[3]; }
  return ma_v2.items;
}
static void ma_setup(UnmarshalState *st) {
  ma_n = nd_size(); __CPROVER_assume(ma_n <= MA_MAXN);
#ifdef MA_FIXED
  /* units whose arm reads ONLY the lead byte itself (everything after it goes through reader stubs that account for the
   * cursor as an offset): the input object is that single byte, pinned to the lead byte of the unit, so that any other
   * direct read by the real code is an out-of-object read; start + ma_n is a pointer the code only compares against */
  static uint8_t ma_one[1]; ma_one[0] = MA_LEAD; ma_in = ma_one; ma_off = 0;
#else
  ma_in = malloc(ma_n); __CPROVER_assume(ma_in != 0);
  ma_off = nd_size(); __CPROVER_assume(ma_off <= ma_n);
#endif
  st->start = ma_in; st->end = ma_in + ma_n; st->reg = (JanetTable *) 0; st->lookup_defs = 0; st->lookup_envs = 0;
  /* 0..3 numbered values in a vector of capacity 4 (3 = full: the next push grows), or no vector yet */
  ma_cnt0 = nd_i32(); __CPROVER_assume(ma_cnt0 >= 0 && ma_cnt0 <= 3);
  ma_v1.cap = 4; ma_v1.cnt = ma_cnt0; ma_grow_calls = 0;
  ma_v1.items[0] = ma_serial(0); ma_v1.items[1] = ma_serial(1); ma_v1.items[2] = ma_serial(2); ma_v1.items[3] = ma_serial(3);
  if (ma_cnt0 == 0 && nd_int()) st->lookup = (Janet *) 0; else st->lookup = ma_v1.items;
}
/* the arms of the same switch that the unit is not about: never entered under the unit's lead byte */
const uint8_t *ma_not_fiber_stub(UnmarshalState *st, const uint8_t *data, JanetFiber **out, int flags) { __CPROVER_assert(0, "C10 arm: the fiber reader is not entered from this arm"); __CPROVER_assume(0); return data; }
const uint8_t *ma_not_def_stub(UnmarshalState *st, const uint8_t *data, JanetFuncDef **out, int flags) { __CPROVER_assert(0, "C10 arm: the funcdef reader is not entered from this arm"); __CPROVER_assume(0); return data; }
const uint8_t *ma_not_env_stub(UnmarshalState *st, const uint8_t *data, JanetFuncEnv **out, int flags) { __CPROVER_assert(0, "C10 arm: the funcenv reader is not entered from this arm"); __CPROVER_assume(0); return data; }
const uint8_t *ma_not_abstract_stub(UnmarshalState *st, const uint8_t *data, Janet *out, int flags) { __CPROVER_assert(0, "C10 arm: the abstract reader is not entered from this arm"); __CPROVER_assume(0); return data; }
void ma_not_memcpy_stub(void *dest, const void *src, size_t len) { __CPROVER_assert(0, "C10 arm: nothing is copied by this arm"); __CPROVER_assume(0); }
#define MA_CUR (ma_in + ma_off)
#define MA_B(i) (ma_in[ma_off + (i)])
/* bitwise identity of two values (tagged-struct or nan-boxed configuration) */
#ifdef JANET_NO_NANBOX
#define MA_SAME(a, b) ((a).type == (b).type && (a).as.u64 == (b).as.u64)
#else
#define MA_SAME(a, b) ((a).u64 == (b).u64)
#endif
/* the lookup vector after the call: nothing numbered */
#define MA_ASSERT_NOT_PUSHED(st, what) \
  __CPROVER_assert(janet_v_count((st).lookup) == ((st).lookup ? ma_cnt0 : 0) && ma_grow_calls == 0, what)
/* the lookup vector after the call: exactly one new number, carrying `val`; earlier numbers keep their values */
#define MA_ASSERT_PUSHED_ONCE(st, val, what, whatold) do { \
  __CPROVER_assert((st).lookup != 0 && janet_v_count((st).lookup) == ma_cnt0 + 1 && MA_SAME((st).lookup[ma_cnt0], val), what); \
  int32_t j_ = nd_i32(); if (j_ >= 0 && j_ < ma_cnt0) { Janet s_ = ma_serial(j_); __CPROVER_assert(MA_SAME((st).lookup[j_], s_), whatold); } \
  } while (0)
#define MA_DEPTH_OK(flags) __CPROVER_assert(((flags) & 0xFFFF) <= JANET_RECURSION_GUARD, "C10/C19: a value is read only while the nesting depth is within the recursion guard")
#endif
