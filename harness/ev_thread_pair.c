/* C20: a fiber waiting for a worker thread is pinned (gc-rooted) exactly once when the wait starts and released exactly once
 * when the completion callback runs - on EVERY path, also when the wait was cancelled and the fiber can no longer be resumed
 * (otherwise every cancelled ev/thread / os/shell wait leaks a pinned fiber). C07: the fiber is resumed at most once and only if
 * it can still be resumed. */
#include "prelude.h"
JanetFiber g_f; int g_roots, g_unroots, g_sched, g_can; Janet g_rooted, g_unrooted;
void gcroot_rec(Janet x) { g_roots++; g_rooted = x; }
int gcunroot_rec(Janet x) { g_unroots++; g_unrooted = x; return 1; }
int can_resume_stub(JanetFiber *f) { return g_can; }
void sched_rec(JanetFiber *f, Janet v) { __CPROVER_assert(f == &g_f && g_can, "C07 thread completion: only the waiting fiber is resumed, and only if it can be resumed"); g_sched++; }
void call_stub(JanetThreadedSubroutine fp, JanetEVGenericMessage arguments, JanetThreadedCallback cb) {
  __CPROVER_assert(arguments.fiber == &g_f && g_roots == 1 && janet_unwrap_fiber(g_rooted) == &g_f, "C20 thread wait: the waiting fiber is pinned exactly once before the work is handed to the thread");
  __CPROVER_assert(cb == janet_ev_default_threaded_callback, "C20 thread wait: completion goes through the default callback");
  REACH("threaded await hands work over");
}
JanetFiber *root_fiber_stub(void) { return &g_f; }
void await_stub(void) { __CPROVER_assume(0); }
void h_threaded_await(void) { g_roots = g_unroots = 0; janet_ev_threaded_await((JanetThreadedSubroutine) 0, nd_int(), nd_int(), nd_ptr()); }
void h_threaded_callback(void) {
  JanetEVGenericMessage m; m.tag = nd_int(); m.argi = nd_int(); m.argp = nd_ptr(); m.fiber = (nd_int() & 1) ? &g_f : 0;
  g_roots = g_unroots = g_sched = 0; g_can = nd_int() & 1;
  janet_ev_default_threaded_callback(m);
  if (m.fiber == 0) __CPROVER_assert(g_unroots == 0 && g_sched == 0, "C20 thread completion: nothing to release for a fire-and-forget call");
  else {
    __CPROVER_assert(g_unroots == 1 && janet_unwrap_fiber(g_unrooted) == &g_f, "C20 thread completion: the waiting fiber is released exactly once, whether or not it can still be resumed");
    __CPROVER_assert(g_sched == (g_can ? 1 : 0), "C07 thread completion: the fiber is resumed exactly once if it can be resumed, otherwise not at all");
  }
  REACH("threaded callback returns");
}
/* C07: the completion of a thread / subprocess wait may resume the fiber only if that wait is still the fiber's current one.
 * g_gen_at_wait is the ghost generation the fiber had when janet_ev_threaded_await registered the wait. */
uint32_t g_gen_at_wait; int g_sched2;
void sched_gen(JanetFiber *f, Janet v) { __CPROVER_assert(f->sched_id == g_gen_at_wait, "C07 thread completion: the fiber is resumed only if the abandoned-or-not wait it registered is still current (generation unchanged since the wait began)"); g_sched2++; }
void h_threaded_callback_current(void) {
  JanetEVGenericMessage m; m.tag = nd_int(); m.argi = nd_int(); m.argp = nd_ptr(); m.fiber = &g_f;
  g_gen_at_wait = nd_u32(); g_f.sched_id = nd_u32(); g_can = 1; g_sched2 = 0;
  janet_ev_default_threaded_callback(m);
  REACH("threaded callback returns");
}
