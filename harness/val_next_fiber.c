/* C05: iterating a fiber as a generator - janet_next_impl (value.c), case JANET_FIBER (JOP_NEXT / (next fiber), each, seq, ...).
 * The generator runs as a CHILD of the iterating fiber. Protocol:
 *   - a generator that cannot be resumed (alive, dead, error, user0..4) ends the iteration (nil), nothing is run;
 *   - otherwise it is linked as child and continued with nil exactly once;
 *   - a signal the generator's mask does not accept is passed on: from the interpreter with the child link KEPT (a later resume of
 *     the iterating fiber descends into the generator again, e.g. after an await inside the generator); from C code as an error
 *     with the link cleared;
 *   - otherwise the link is cleared; key 0 when the generator can be resumed again, nil when it has finished. */
#include "prelude.h"
static JanetFiber nf_cur, nf_gen; static int nf_cont_calls, nf_sig; static int nf_signalv, nf_panicv; static uint64_t nf_ret;
JanetSignal nf_continue_stub(JanetFiber *f, Janet in, Janet *out) {
  __CPROVER_assert(f == &nf_gen && in.type == JANET_NIL, "next(fiber): the generator is continued with nil");
  __CPROVER_assert(janet_vm.fiber == &nf_cur && nf_cur.child == &nf_gen, "next(fiber): the generator runs as the child of the iterating fiber");
  nf_cont_calls++; out->type = JANET_NUMBER; out->as.u64 = nf_ret;
  return (JanetSignal) nf_sig;
}
void nf_signalv_stub(JanetSignal s, Janet m) {
  __CPROVER_assert((int) s == nf_sig && m.as.u64 == nf_ret, "next(fiber): an untrapped signal is passed on unchanged with its value");
  __CPROVER_assert(nf_cur.child == &nf_gen, "next(fiber): while an untrapped signal passes through, the generator stays the pending child (a resume descends into it again)");
  nf_signalv++; REACH("untrapped signal passed on from the interpreter"); __CPROVER_assume(0);
}
void nf_panicv_stub(Janet m) {
  __CPROVER_assert(nf_cur.child == (JanetFiber *)0 && m.as.u64 == nf_ret, "next(fiber): from C code the signal becomes an error and the child link is cleared");
  nf_panicv++; REACH("untrapped signal raised as an error from C"); __CPROVER_assume(0);
}
void h_next_fiber(void) {
  janet_vm.fiber = &nf_cur; nf_cur.child = (JanetFiber *)0;
  int st = nd_int(); __CPROVER_assume(st >= JANET_STATUS_DEAD && st <= JANET_STATUS_ALIVE);
  nf_gen.flags = (nd_i32() & ~JANET_FIBER_STATUS_MASK) | (st << JANET_FIBER_STATUS_OFFSET);
  nf_sig = nd_int(); __CPROVER_assume(nf_sig >= JANET_SIGNAL_OK && nf_sig <= JANET_SIGNAL_USER9); nf_ret = nd_u64();
  int interp = nd_int() & 1; nf_cont_calls = nf_signalv = nf_panicv = 0;
  Janet ds; ds.type = JANET_FIBER; ds.as.pointer = &nf_gen; Janet key; key.type = JANET_NIL; key.as.u64 = 0;
  Janet r = janet_next_impl(ds, key, interp);
  int resumable = !(st == JANET_STATUS_ALIVE || st == JANET_STATUS_DEAD || st == JANET_STATUS_ERROR || (st >= JANET_STATUS_USER0 && st <= JANET_STATUS_USER4));
  if (!resumable) { __CPROVER_assert(nf_cont_calls == 0 && r.type == JANET_NIL, "next(fiber): a generator that cannot be resumed ends the iteration, nothing runs"); REACH("finished generator"); }
  else {
    int trapped = nf_sig == JANET_SIGNAL_OK || (nf_gen.flags & (1 << nf_sig));
    __CPROVER_assert(nf_cont_calls == 1 && trapped, "next(fiber): returns only when the generator's signal was OK or accepted by its mask");
    __CPROVER_assert(nf_cur.child == (JanetFiber *)0, "next(fiber): the child link is cleared when the step is complete");
    int finished = nf_sig == JANET_SIGNAL_OK || nf_sig == JANET_SIGNAL_ERROR || (nf_sig >= JANET_SIGNAL_USER0 && nf_sig <= JANET_SIGNAL_USER4);
    __CPROVER_assert(finished ? r.type == JANET_NIL : (r.type == JANET_NUMBER && r.as.number == 0.0), "next(fiber): key 0 while the generator can be resumed again, nil when it has finished");
    REACH("generator stepped");
  }
}
