/* C07: completion callbacks that carry the waiter's generation in the message resume the fiber only if it is current.
 *   os.c   janet_proc_wait_cb    (subprocess wait: args.argi is the generation recorded when the wait began)
 *   ev.c   janet_thread_chan_cb  (thread-channel hand-off: msg.argi likewise) */
#include "prelude.h"
JanetFiber g_f; uint32_t g_gen; int g_can, g_calls;
int can_resume_stub(JanetFiber *f) { return g_can; }
void sched_gen(JanetFiber *f, Janet v) { __CPROVER_assert(f == &g_f && f->sched_id == g_gen, "C07 completion callback: the fiber is resumed only if the generation recorded with the wait is still current"); __CPROVER_assert(g_can, "C07 completion callback: only a resumable fiber is resumed"); g_calls++; REACH("callback resumes the fiber"); }
int gcunroot_stub(Janet x) { return 1; }
#ifdef VC_PROC
void h_proc_wait_cb(void) {
  JanetProc proc; proc.flags = nd_int(); JanetEVGenericMessage m; m.argp = &proc; m.fiber = &g_f; m.tag = nd_int(); m.argi = nd_int();
  g_gen = (uint32_t) m.argi; g_f.sched_id = nd_u32(); g_can = nd_int() & 1; g_calls = 0;
  janet_proc_wait_cb(m);
  __CPROVER_assert(g_calls == ((g_can && g_f.sched_id == g_gen) ? 1 : 0), "C07 subprocess wait: resumed exactly once iff the wait is current and the fiber resumable");
  __CPROVER_assert((proc.flags & JANET_PROC_WAITED) && !(proc.flags & JANET_PROC_WAITING) && proc.return_code == m.tag, "C16 subprocess wait: the status is stored in the process object in any case");
}
#else
JanetChannel g_ch;
Janet res1(JanetChannel *c) { return janet_wrap_nil(); }
Janet res2(JanetChannel *c, Janet x) { return x; }
int qpop_stub(JanetQueue *q, void *out, size_t n) { return 1; }
void h_thread_chan_cb(void) {
  JanetEVGenericMessage m; m.argp = &g_ch; m.fiber = &g_f; m.tag = nd_uint() % 5; m.argi = nd_int(); m.argj = janet_wrap_nil();
  g_ch.is_threaded = 0; g_gen = (uint32_t) m.argi; g_f.sched_id = nd_u32(); g_can = 1; g_calls = 0;
  janet_thread_chan_cb(m);
  __CPROVER_assert(g_calls == (g_f.sched_id == g_gen ? 1 : 0), "C07 thread-channel hand-off: resumed exactly once iff the waiter's generation is current");
}
#endif
