/* C04 (map part): janet_dict_find (util.c) - the lookup primitive of tables and structs - against its contract, from
 * EVERY well-formed bucket array of capacity TAB_CAP (see tab_common.h for wf_dict, the key universe and tab_find_spec).
 *
 *   requires wf_dict(buckets, cap)          key: any key of the universe, or a foreign key (nil / NaN)
 *   ensures  result == NULL or result == buckets + r with 0 <= r < cap, and r is
 *            - the live bucket holding a key equal to `key`, if one exists            ("lookups find what was put")
 *            - otherwise the EMPTY bucket that terminates the probe from home(key)     (where put may store the key
 *              without breaking D3/D4), if the array has an empty bucket
 *            - otherwise the first TOMBSTONE on the probe path, NULL if there is none (array full of other keys)
 *            every bucket access inside the array (pointer checks), nothing written.
 *
 * Note on the code's comment "returns ... the first empty bucket": a tombstone seen before the terminating EMPTY bucket
 * is NOT reused (first_bucket is only returned when the whole array has no empty bucket). That costs probe length, not
 * correctness, and the property is silent on it; the contract states what the callers rely on. */
#include "tab_common.h"

#ifndef TAB_CAP
#define TAB_CAP 4
#endif

void h_dict_find(void) {
  tab_init();
  JanetKV *b = tab_any_buckets(TAB_CAP);
  int32_t nl, nt;
  __CPROVER_assume(tab_wf_dict(b, TAB_CAP, &nl, &nt));        /* requires wf_dict */
  int k = nd_int();
  __CPROVER_assume(k >= 0 && k <= TAB_K);
  Janet key = tab_any_key(k);
  JanetKV snap[TAB_CAP];
  for (int i = 0; i < TAB_CAP; i++) snap[i] = b[i];

  const JanetKV *r = janet_dict_find(b, TAB_CAP, key);

  int32_t want = tab_find_spec(b, TAB_CAP, k);
  int32_t ri = -1;
  if (r != TAB_NULL) {
    __CPROVER_assert(__CPROVER_same_object(r, b) && r >= b && r < b + TAB_CAP, "C04 dict_find: a non-NULL result points into the bucket array");
    ri = (int32_t)(r - b);
    __CPROVER_assert(b + ri == r, "C04 dict_find: a non-NULL result is the address of a bucket");
  }
  __CPROVER_assert(ri == want, "C04 dict_find: result is the bucket holding an equal key if one exists, else the empty bucket that ends the probe path, else the first tombstone, else NULL");
  /* consequences the callers use, stated separately */
  int present = tab_lookup(b, TAB_CAP, k).u64 != tab_nilw;
  if (ri >= 0 && tab_state(b + ri) == TAB_LIVE)
    __CPROVER_assert(k != 0 && tab_kid(b[ri].key) == k, "C04 dict_find: a returned live bucket holds a key equal to the argument");
  if (ri < 0 || tab_state(b + ri) != TAB_LIVE)
    __CPROVER_assert(!present, "C04 dict_find: NULL or a non-live bucket is returned only if no live bucket holds an equal key");
  if (ri < 0)
    __CPROVER_assert(nl == TAB_CAP, "C04 dict_find: NULL only for an array full of live buckets");
  for (int i = 0; i < TAB_CAP; i++)
    __CPROVER_assert(b[i].key.u64 == snap[i].key.u64 && b[i].value.u64 == snap[i].value.u64, "C04 dict_find: the bucket array is not modified");

  REACH("dict_find returns");
  if (present) REACH("dict_find returns the bucket of a present key");
#if TAB_CAP >= 2
  if (present && ri < tab_home(TAB_CAP, k) && nt > 0) REACH("dict_find finds a key in the wrapped-around part of a probe path with tombstones");
  if (!present && ri >= 0 && nt > 0) REACH("dict_find returns a free bucket of an array with tombstones");
#endif
  if (ri < 0) REACH("dict_find returns NULL for a full array");
}
