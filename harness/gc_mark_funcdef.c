/* C01: janet_mark_funcdef - an unmarked definition is marked; its constants (constants, constants_length) are handed to
 * janet_mark_many; janet_mark_funcdef is called for every sub-definition defs[g_idx]; janet_mark_string for the source, the
 * name and every symbolmap[g_idx2].symbol.  The self-recursive call is replaced by the recording stub below
 * (goto-instrument --replace-calls, the real function is re-attached as the entry: gen_C19 technique). */
#include "gc_mark.h"
int32_t g_idx, g_idx2; int g_sel;   /* g_sel: which string edge is under observation: 0 source, 1 name, 2 symbolmap[g_idx2].symbol */

void funcdef_rec_stub(JanetFuncDef *def) {
  g_def_seen = g_def_seen || ((const void *) def == g_def);
  g_def_calls = g_def_calls + 1u;
}
static void janet_mark_funcdef__entry(JanetFuncDef *def);

#define OLD_UNMARKED(def) (!(__CPROVER_old((def)->gc.flags) & JANET_MEM_REACHABLE))
#define NSTR_FIXED(def) (((def)->source != (const uint8_t *) 0 ? 1u : 0u) + ((def)->name != (const uint8_t *) 0 ? 1u : 0u))

static void janet_mark_funcdef_spec(JanetFuncDef *def)
__CPROVER_requires(__CPROVER_is_fresh(def, sizeof(JanetFuncDef)))
/* representation invariant of a funcdef (janet_funcdef_alloc + compiler/asm/unmarshal): lengths describe the arrays */
__CPROVER_requires(def->defs_length >= 0 && def->defs_length <= (1 << 24) && def->symbolmap_length >= 0 && def->symbolmap_length <= (1 << 24))
__CPROVER_requires(__CPROVER_is_fresh(def->defs, sizeof(JanetFuncDef *) * (size_t) def->defs_length))
__CPROVER_requires(def->symbolmap == (JanetSymbolMap *) 0 || __CPROVER_is_fresh(def->symbolmap, sizeof(JanetSymbolMap) * (size_t) def->symbolmap_length))
/* ghost selectors */
__CPROVER_requires(g_w_kind == W_MANY && g_w_base == (const void *) def->constants && g_w_n == def->constants_length)
__CPROVER_requires(g_idx >= 0 && (g_idx < def->defs_length ==> g_def == (const void *) def->defs[g_idx]))
__CPROVER_requires(g_idx2 >= 0 && g_sel >= 0 && g_sel <= 2)
__CPROVER_requires(g_sel == 0 ==> g_str == (const void *) def->source)
__CPROVER_requires(g_sel == 1 ==> g_str == (const void *) def->name)
__CPROVER_requires((g_sel == 2 && def->symbolmap != (JanetSymbolMap *) 0 && g_idx2 < def->symbolmap_length) ==> g_str == (const void *) def->symbolmap[g_idx2].symbol)
__CPROVER_requires(!g_w_seen && g_w_calls == 0 && !g_def_seen && g_def_calls == 0 && !g_str_seen && g_str_calls == 0)
__CPROVER_assigns(def->gc.flags, g_w_seen, g_w_calls, g_def_seen, g_def_calls, g_str_seen, g_str_calls)
__CPROVER_ensures(def->gc.flags == (__CPROVER_old(def->gc.flags) | JANET_MEM_REACHABLE))
/* C01: constants */
__CPROVER_ensures(OLD_UNMARKED(def) ==> (g_w_seen && g_w_calls == 1))
/* C01: every nested definition */
__CPROVER_ensures((OLD_UNMARKED(def) && g_idx < def->defs_length) ==> g_def_seen)
__CPROVER_ensures(OLD_UNMARKED(def) ==> g_def_calls == (unsigned) def->defs_length)
/* C01: source, name, every symbol of the symbol map */
__CPROVER_ensures((OLD_UNMARKED(def) && g_sel == 0 && def->source != (const uint8_t *) 0) ==> g_str_seen)
__CPROVER_ensures((OLD_UNMARKED(def) && g_sel == 1 && def->name != (const uint8_t *) 0) ==> g_str_seen)
__CPROVER_ensures((OLD_UNMARKED(def) && g_sel == 2 && def->symbolmap != (JanetSymbolMap *) 0 && g_idx2 < def->symbolmap_length) ==> g_str_seen)
__CPROVER_ensures(OLD_UNMARKED(def) ==> g_str_calls == NSTR_FIXED(def) + (def->symbolmap != (JanetSymbolMap *) 0 ? (unsigned) def->symbolmap_length : 0u))
/* visited definitions are not traversed again */
__CPROVER_ensures(!OLD_UNMARKED(def) ==> (g_w_calls == 0 && g_def_calls == 0 && g_str_calls == 0))
;

void h_mark_funcdef(void) {
  JanetFuncDef *d;
  janet_mark_funcdef__entry(d);
  REACH("janet_mark_funcdef returns");
}
