/* C03: "structs compare by content - independent of how, when or in which insertion order they were built".
 * Canonical-layout lemma on the REAL janet_struct_begin / janet_struct_put_ext of struct.c:
 * for symbolic pairwise distinct keys out of an abstract universe and EVERY insertion order, the filled structs have
 * bit-identical bucket arrays - hence the same cached hash (janet_struct_end: janet_kv_calchash over the buckets) and
 * janet_equals (hash, length, bucket-by-bucket) holds.
 *
 * The lemma is about the insertion algorithm (robin-hood ordering by (distance, hash, compare)), not about number hashing:
 * janet_hash / janet_compare / janet_equals on KEYS are replaced by their contracts -
 *   a hash that is an ARBITRARY function of the key (symbolic table g_h[], so every collision pattern is covered),
 *   compare a consistent total order, equals its equality  (exactly what units val.* prove about the real ones).
 * The abstract key universe is VAL_K distinct keys, encoded as the numbers 1..VAL_K; values are arbitrary non-nil words.
 * Bounded: capacity VAL_CAP, VAL_N keys. */
#include "prelude.h"

#ifndef VAL_K
#define VAL_K 4
#endif
#ifndef VAL_N
#define VAL_N 2
#endif

int32_t g_h[VAL_K + 1];
static int v_kid(Janet x) {
  double d = janet_unwrap_number(x);
  for (int i = 1; i < VAL_K; i++) if (d == (double) i) return i;
  return VAL_K;
}
/* contracts of the callees on keys (and, for the cached struct hash only, on values: any function of the bits) */
int32_t janet_hash(Janet x) { return janet_checktype(x, JANET_NUMBER) ? g_h[v_kid(x)] : (int32_t)(x.u64 ^ (x.u64 >> 32)); }
int janet_compare(Janet a, Janet b) { int x = v_kid(a), y = v_kid(b); return x < y ? -1 : x > y ? 1 : 0; }
int janet_equals(Janet a, Janet b) { return v_kid(a) == v_kid(b); }

/* janet_tablen contract (util.c): a power of two.  The real one returns the power of two strictly above 2*count (8 for two
 * or three keys); the insertion algorithm only needs a power of two that holds all keys, so the lemma is stated for the
 * capacity VAL_CAP chosen by the unit (the tighter the table, the more collisions/displacements are exercised). */
int32_t janet_tablen(int32_t n) {
  __CPROVER_assert(n == 2 * VAL_N, "C03 struct capacity is derived from 2*count");
  __CPROVER_assert((VAL_CAP & (VAL_CAP - 1)) == 0 && VAL_CAP >= VAL_N, "C03 unit capacity is a power of two that holds all keys");
  return VAL_CAP;
}

/* janet_gcalloc contract: a fresh zeroed block of the requested size (gc.c: calloc-like; header owned by the GC) */
void *v_gcalloc(enum JanetMemoryType type, size_t size) {
  void *p = calloc(1, size);
  __CPROVER_assume(p != NULL);
  return p;
}

static Janet v_key(int k) { return janet_wrap_number((double) k); }
static Janet v_val(void) { Janet v; v.u64 = nd_u64(); __CPROVER_assume(!janet_checktype(v, JANET_NIL) && (!isnan(v.number) || (v.u64 >> 51) == 0x1FFFu)); return v; }

/* builds with the real janet_struct_begin + janet_struct_put_ext; the temporary count (kept in head->hash) must be complete,
 * i.e. janet_struct_end would finish the struct in place (its rebuild path is only for duplicate keys). */
static JanetKV *v_build(const int *order, const int *k, const Janet *v) {
  JanetKV *st = janet_struct_begin(VAL_N);
  for (int i = 0; i < VAL_N; i++) janet_struct_put_ext(st, v_key(k[order[i]]), v[order[i]], 1);
  __CPROVER_assert(janet_struct_hash(st) == janet_struct_length(st), "C03 all distinct keys were inserted (janet_struct_end finishes in place)");
  return st;
}

#if VAL_N == 2
#define VAL_NPERM 2
static const int v_perms[VAL_NPERM][VAL_N] = {{0, 1}, {1, 0}};
#elif VAL_N == 3
#define VAL_NPERM 6
static const int v_perms[VAL_NPERM][VAL_N] = {{0, 1, 2}, {0, 2, 1}, {1, 0, 2}, {1, 2, 0}, {2, 0, 1}, {2, 1, 0}};
#endif

void h_struct_layout(void) {
  for (int i = 0; i <= VAL_K; i++) g_h[i] = nd_i32();
  int k[VAL_N]; Janet v[VAL_N];
  for (int i = 0; i < VAL_N; i++) { k[i] = nd_int(); __CPROVER_assume(k[i] >= 1 && k[i] <= VAL_K); v[i] = v_val(); }
  for (int i = 0; i < VAL_N; i++) for (int j = 0; j < i; j++) __CPROVER_assume(k[i] != k[j]);
  /* reference order 0,1,..,N-1 against every other permutation (keys and hash table are symbolic, so comparing every
   * order with the reference order compares every pair of orders) */
  int p = 1;
#if VAL_NPERM > 2
  p = nd_int(); __CPROVER_assume(p >= 1 && p < VAL_NPERM);
#endif
  int perm[VAL_N];
  for (int i = 0; i < VAL_N; i++) perm[i] = v_perms[p][i];
  JanetKV *a = v_build(v_perms[0], k, v);
  JanetKV *b = v_build(perm, k, v);
  __CPROVER_assert(janet_struct_capacity(a) == VAL_CAP && janet_struct_capacity(b) == VAL_CAP, "C03 struct capacity is what janet_tablen returned");
  int present = 0;
  for (int i = 0; i < VAL_CAP; i++) {
    __CPROVER_assert(a[i].key.u64 == b[i].key.u64 && a[i].value.u64 == b[i].value.u64, "C03 struct bucket layout is independent of insertion order");
    if (!janet_checktype(a[i].key, JANET_NIL)) present++;
  }
  __CPROVER_assert(present == VAL_N, "C03 every inserted key occupies exactly one bucket");
#ifdef VAL_LOOKUP
  /* content: every key is found with its value by the real lookup */
  int g = nd_int(); __CPROVER_assume(g >= 0 && g < VAL_N);
  Janet got = janet_struct_rawget(b, v_key(k[g]));
  __CPROVER_assert(got.u64 == v[g].u64, "C03 struct built in any order maps each key to its value");
#endif
  REACH("both structs built");
}
