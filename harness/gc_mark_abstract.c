/* C01: janet_mark_abstract - an unmarked abstract value is marked and its type's gcmark hook (the type's own mark routine: channels,
 * streams, parsers, pegs, ... mark what they hold from there) is called once with (data, size); a threaded abstract is not marked in
 * the local heap but recorded as seen in janet_vm.threaded_abstracts (key = the abstract value, value = true), which is what keeps
 * its reference count from being dropped by the sweep; a marked abstract is left alone.
 * Compiled in the JANET_NO_NANBOX configuration (the table key is a pointer packed in a Janet). */
#include "gc_mark.h"
JanetAbstractHead *g_head;        /* ghost: the block; the routine receives the interior pointer head->data */
const void *g_hook_data; size_t g_hook_len; int g_hook_seen; unsigned g_hook_calls;
int vc_gcmark(void *data, size_t len) {
  g_hook_seen = g_hook_seen || ((const void *) data == g_hook_data && len == g_hook_len);
  g_hook_calls = g_hook_calls + 1u;
  return 0;
}
int (*g_hook_addr)(void *, size_t) = vc_gcmark;   /* address taken: the candidate of the indirect call type->gcmark(...) */

const void *g_put_table; int g_put_seen; unsigned g_put_calls;
void janet_table_put_c(JanetTable *t, Janet key, Janet value)
__CPROVER_assigns(g_put_seen, g_put_calls)
__CPROVER_ensures(g_put_seen == (__CPROVER_old(g_put_seen) || ((const void *) t == g_put_table && key.type == JANET_ABSTRACT && key.as.pointer == (void *) g_head->data &&
                                                              value.type == JANET_BOOLEAN && (value.as.u64 & 1) == 1)))
__CPROVER_ensures(g_put_calls == __CPROVER_old(g_put_calls) + 1u)
;

#define OLDF __CPROVER_old(g_head->gc.flags)
#define THREADED(f) (((f) & JANET_MEM_TYPEBITS) == JANET_MEMORY_THREADED_ABSTRACT)
static void janet_mark_abstract_spec(void *adata)
__CPROVER_requires(__CPROVER_is_fresh(g_head, sizeof(JanetAbstractHead)))
__CPROVER_requires(__CPROVER_pointer_equals(adata, g_head->data))
__CPROVER_requires(__CPROVER_is_fresh(g_head->type, sizeof(JanetAbstractType)))
__CPROVER_requires(MEMTYPE(g_head) == JANET_MEMORY_ABSTRACT || MEMTYPE(g_head) == JANET_MEMORY_THREADED_ABSTRACT)
__CPROVER_requires(g_head->type->gcmark == 0 || g_head->type->gcmark == vc_gcmark)
__CPROVER_requires(g_hook_data == (const void *) g_head->data && g_hook_len == g_head->size && g_put_table == (const void *) &janet_vm.threaded_abstracts)
__CPROVER_requires(!g_hook_seen && g_hook_calls == 0 && !g_put_seen && g_put_calls == 0)
__CPROVER_assigns(g_head->gc.flags, g_hook_seen, g_hook_calls, g_put_seen, g_put_calls)
/* C01: a local abstract value is marked and its contents are marked through the type's hook */
__CPROVER_ensures(!THREADED(OLDF) ==> g_head->gc.flags == (OLDF | JANET_MEM_REACHABLE))
__CPROVER_ensures((!THREADED(OLDF) && !(OLDF & JANET_MEM_REACHABLE) && g_head->type->gcmark != 0) ==> (g_hook_seen && g_hook_calls == 1))
__CPROVER_ensures((!THREADED(OLDF) && (OLDF & JANET_MEM_REACHABLE)) ==> g_hook_calls == 0)
__CPROVER_ensures(!THREADED(OLDF) ==> g_put_calls == 0)
/* C01: a threaded abstract value is recorded as visited for this collection */
__CPROVER_ensures(THREADED(OLDF) ==> (g_put_seen && g_put_calls == 1 && g_hook_calls == 0 && g_head->gc.flags == OLDF))
;
void h_mark_abstract(void) {
  void *a;
  janet_mark_abstract(a);
  REACH("janet_mark_abstract returns");
}
