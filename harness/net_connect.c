/* C20 / C16: the outcome of an asynchronous connect - net_callback_connect (net.c). When the socket becomes writable the pending
 * error is read with getsockopt(SO_ERROR): success resumes the connecting fiber with the stream; ANY failure (the connect was
 * refused, or the query itself failed) cancels the fiber AND marks the stream to be closed when the registration ends
 * (janet_async_end -> janet_stream_checktoclose), so the descriptor of a failed connect is released at once and not whenever the
 * collector happens to finalise the stream: repeating failed connects keeps the number of open descriptors bounded.
 * The registration always ends, after the fiber has been resumed or cancelled. */
#include "prelude.h"
static JanetStream nc_stream; static JanetFiber nc_fiber; static int nc_r, nc_res; static int nc_sched, nc_cancel, nc_end, nc_seq, nc_end_seq; static uint32_t nc_flags_at_end;
int nc_getsockopt_stub(int fd, int level, int optname, void *__restrict optval, socklen_t *__restrict optlen) {
  __CPROVER_assert(fd == nc_stream.handle && level == SOL_SOCKET && optname == SO_ERROR, "connect: the pending error of the stream's own socket is queried");
  *(int *) optval = nc_res; return nc_r;
}
void nc_schedule_stub(JanetFiber *f, Janet v) { __CPROVER_assert(f == &nc_fiber && v.type == JANET_ABSTRACT && v.as.pointer == (void *)&nc_stream, "connect: success resumes the connecting fiber with the stream"); nc_sched++; nc_seq++; }
void nc_cancel_stub(JanetFiber *f, Janet v) { __CPROVER_assert(f == &nc_fiber, "connect: failure cancels the connecting fiber"); nc_cancel++; nc_seq++; }
void nc_async_end_stub(JanetFiber *f) { __CPROVER_assert(f == &nc_fiber, "connect: the connecting fiber's registration ends"); nc_end++; nc_end_seq = nc_seq; nc_flags_at_end = nc_stream.flags; }
Janet nc_lasterr_stub(void) { Janet x; x.type = JANET_STRING; x.as.u64 = 1; return x; }
Janet nc_cstringv_stub(const char *s) { Janet x; x.type = JANET_STRING; x.as.u64 = 2; return x; }
const char *nc_strerror_stub(int e) { return "err"; }
void h_net_connect(void) {
  nc_stream.handle = 9; nc_stream.flags = nd_u32() & ~JANET_STREAM_TOCLOSE; uint32_t f0 = nc_stream.flags;
  nc_fiber.ev_stream = &nc_stream; nc_r = nd_int(); nc_res = nd_int(); __CPROVER_assume(nc_r == 0 || nc_r == -1);
  nc_sched = nc_cancel = nc_end = nc_seq = 0;
  net_callback_connect(&nc_fiber, JANET_ASYNC_EVENT_WRITE);
  __CPROVER_assert(nc_end == 1 && nc_end_seq == 1 && nc_sched + nc_cancel == 1, "connect: the fiber is resumed or cancelled exactly once, then the registration ends");
  if (nc_r == 0 && nc_res == 0) {
    __CPROVER_assert(nc_sched == 1 && nc_flags_at_end == f0, "connect: success hands out the open stream");
    REACH("connect succeeded");
  } else {
    __CPROVER_assert(nc_cancel == 1, "connect: a failed connect raises in the connecting fiber");
    __CPROVER_assert(nc_flags_at_end & JANET_STREAM_TOCLOSE, "connect: the socket of a failed connect is marked for closing before the registration ends (its descriptor is released at once)");
    __CPROVER_assert((nc_flags_at_end & ~JANET_STREAM_TOCLOSE) == f0, "connect: no other stream flag changes");
    if (nc_r == 0) REACH("connect refused"); else REACH("SO_ERROR query failed");
  }
}
