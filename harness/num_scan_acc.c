/* C13: 64-bit integer text - the accumulator of scan_uint64 (strtod.c) never wraps, for EVERY input length.
 *
 * Technique (DESIGN R13/R16): both loops of scan_uint64 get the trivial loop contract (invariant 1 == 1), so the body
 * of the digit loop is checked for an ARBITRARY accumulator, cursor and seen-a-digit flag. The obligations are the
 * automatically generated ones on
 *        if (accum > (UINT64_MAX - digit) / base) return 0;     (subtraction cannot wrap, divisor != 0)
 *        accum = accum * base + digit;                          (neither * nor + wraps in 64 bits)
 * together with the signed arithmetic that computes the radix from the prefix. Pointer checks are OFF in these units
 * (the loop-carried cursor is arbitrary after the loop havoc, rule R14); memory safety is the separate bounded units
 * num.scan.memsafe.*.
 *
 * The radix must be a constant for the solver (rule R5): one job per radix prefix, selected with -DNUM_KIND / -DNUM_K.
 * The jobs partition the input domain (every input takes exactly one of the prefix branches of the code):
 *   NUM_KIND 0   no radix prefix (decimal): none of the three prefix tests of the literal syntax applies
 *   NUM_KIND 1   "0x"                       (hexadecimal)
 *   NUM_KIND 2   "<d>r"      d == NUM_K     (one digit radix 2..9)
 *   NUM_KIND 5   "0r" or "1r"               (degenerate one digit radices: the code does not refuse them - only zeros can
 *                                            follow, the value is 0; the digit test precedes the division, so no trap)
 *   NUM_KIND 3   "<d><d>r"   dd == NUM_K    (two digit radix 02..36)
 *   NUM_KIND 4   "<d><d>r"   dd outside 2..36 (rejected before any arithmetic)
 * An optional sign ('-' or '+') may precede the prefix in every job. Everything after the prefix (and the length, any
 * int32) is unconstrained.
 */
#include "prelude.h"

#ifndef NUM_KIND
#define NUM_KIND 0
#endif
#ifndef NUM_K
#define NUM_K 10
#endif
#define NUM_BUF 160
#define ISDIG(c) ((c) >= '0' && (c) <= '9')

void h_scan_acc(void) {
  uint8_t buf[NUM_BUF];
  int32_t len = nd_i32();
  int s = (len > 0 && (buf[0] == '-' || buf[0] == '+')) ? 1 : 0;   /* bytes consumed by the sign */
  const uint8_t *p = buf + s;
  int32_t rem = len - s;                                              /* bytes left after the sign */
  int is_hex = rem >= 2 && p[0] == '0' && p[1] == 'x';
  int is_r1 = rem >= 2 && ISDIG(p[0]) && p[1] == 'r';
  int is_r2 = rem >= 3 && ISDIG(p[0]) && ISDIG(p[1]) && p[2] == 'r';
#if NUM_KIND == 0
  __CPROVER_assume(!is_hex && !is_r1 && !is_r2);
#elif NUM_KIND == 1
  __CPROVER_assume(is_hex);
#elif NUM_KIND == 2
  __CPROVER_assume(is_r1 && p[0] == '0' + NUM_K);
#elif NUM_KIND == 3
  __CPROVER_assume(is_r2 && p[0] == '0' + (NUM_K / 10) && p[1] == '0' + (NUM_K % 10));
#elif NUM_KIND == 5
  __CPROVER_assume(is_r1 && (p[0] == '0' || p[0] == '1'));
#else
  __CPROVER_assume(is_r2 && (10 * (p[0] - '0') + (p[1] - '0') < 2 || 10 * (p[0] - '0') + (p[1] - '0') > 36));
#endif
  uint64_t out;
  int neg;
  int r = scan_uint64(buf, len, &out, &neg);
  REACH("scan_uint64 returns");
#if NUM_KIND != 4
  if (r == 1) REACH("scan_uint64 accepts a literal of this radix");
#else
  __CPROVER_assert(r == 0, "a two digit radix outside 2..36 is rejected");
#endif
}
