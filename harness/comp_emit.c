/* C02 (">255 live locals so that far-register spills are needed", "the result does not depend on ... how many local
 * variables are live"): the instruction emitters of emit.c against the INSTRUCTION SET.
 *
 * The emitted instruction sequence is EXECUTED by a small abstract machine that implements the register-transfer
 * instructions exactly as the interpreter does (operand fields A,B,C,D,E of vm.c; JOP_MOVE_NEAR stack[A]=stack[E],
 * JOP_MOVE_FAR stack[E]=stack[A], JOP_LOAD_NIL/TRUE/FALSE stack[D]=.., JOP_LOAD_INTEGER stack[A]=ES, JOP_LOAD_CONSTANT
 * stack[A]=constants[E], JOP_LOAD_UPVALUE stack[A]=envs[B][C], JOP_SET_UPVALUE envs[B][C]=stack[A], JOP_GET_INDEX
 * stack[A]=stack[B][C], JOP_PUT_INDEX stack[A][C]=stack[B]) over SYMBOLIC initial contents: register r initially holds the
 * token REG0(r), upvalue (e,i) the token UP0(e,i), the one-element array of a reference slot the token CELL0(array) - a free
 * interpretation, so that equal tokens mean "the same value whatever the registers hold".
 *
 * Contract of janetc_emit_<shape>(op, slots.., immediate, wr) for every kind of operand slot (local register 0..0xFFFF other
 * than the reserved temporaries 0xF0..0xFF, constant, upvalue, reference):
 *  (a) when the requested instruction executes, each SOURCE operand field names a register that holds the value of its slot;
 *  (b) the requested instruction is emitted exactly once, with the opcode and the immediate unchanged, and its index is returned;
 *  (c) with wr, the value the instruction writes to its first operand ends up in the destination slot (register, upvalue,
 *      reference cell);
 *  (f) frame: no register that is live (= not handed out by the register allocator during the call) changes, except the
 *      destination; no upvalue and no reference cell is written except the destination; only register-transfer instructions
 *      surround the requested one;
 *  (d) every temporary tag and every register taken from the allocator is given back (-DEM_CHECK_RELEASE: registers).
 * The register allocator is a contract stub: it hands out only registers that are not live (regalloc.* units), either a
 * register below 0xF0 or the reserved temporary 0xF0+tag.
 */
#include "prelude.h"

/* ------------------------------------------------------------------ instruction vectors: preallocated, never grown */
#define EM_VCAP 40
#define EM_PRE 1
#ifndef EM_MAXSEQ
#define EM_MAXSEQ 11
#endif
static struct { int32_t cap, cnt; uint32_t data[EM_VCAP]; } em_bufmem;
static struct { int32_t cap, cnt; JanetSourceMapping data[EM_VCAP]; } em_mapmem;
void *em_nogrow_stub(void *v, int32_t increment, int32_t itemsize) { __CPROVER_assert(0, "harness: the preallocated vectors suffice"); __CPROVER_assume(0); return v; }

static JanetCompiler em_c;
static JanetScope em_scope;
static int em_errors;
void em_cerror_stub(JanetCompiler *c, const char *m) { em_errors++; }

/* ------------------------------------------------------------------ abstract values */
typedef struct { uint32_t tag; uint64_t bits; } emval;
#define T_REG0 1u     /* initial content of register bits */
#define T_UP0 2u      /* initial content of upvalue (bits >> 32, bits & 0xFFFFFFFF) */
#define T_NIL 3u
#define T_BOOL 4u
#define T_NUM 5u      /* the double with these bits */
#define T_VAL 6u      /* | type << 8: any other Janet value, payload bits */
#define T_CELL0 7u    /* initial element 0 of the array with payload bits */
#define T_RESULT 8u   /* what the requested instruction writes */
#define T_BAD 9u
static emval em_mk(uint32_t tag, uint64_t bits) { emval v; v.tag = tag; v.bits = bits; return v; }
static int em_eq(emval a, emval b) { return a.tag == b.tag && a.bits == b.bits; }
static emval em_valtok(Janet x) {
    if (x.type == JANET_NIL) return em_mk(T_NIL, 0);
    if (x.type == JANET_BOOLEAN) return em_mk(T_BOOL, x.as.u64 & 1);
    if (x.type == JANET_NUMBER) return em_mk(T_NUM, x.as.u64);
    return em_mk(T_VAL | ((uint32_t) x.type << 8), x.as.u64);
}

/* registers: a write log over the initial contents; entry k belongs to the k-th executed instruction (-1: no register written) */
#define EM_LOG 12
static int32_t em_wreg[EM_LOG]; static emval em_wval[EM_LOG]; static int em_step_no;
static emval em_read(int32_t r) {
    emval v = em_mk(T_REG0, (uint64_t)(uint32_t) r);
    for (int k = 0; k < EM_LOG; k++) if (em_wreg[k] == r) v = em_wval[k];
    return v;
}
/* upvalues and reference cells: number of writes and the last one */
static int em_upw_n; static uint32_t em_upw_e, em_upw_i; static emval em_upw_v;
static emval em_up_read(uint32_t e, uint32_t i) { if (em_upw_n > 0 && em_upw_e == e && em_upw_i == i) return em_upw_v; return em_mk(T_UP0, ((uint64_t) e << 32) | i); }
static int em_cellw_n; static uint64_t em_cellw_a; static emval em_cellw_v;
static emval em_cell_read(uint64_t a) { if (em_cellw_n > 0 && em_cellw_a == a) return em_cellw_v; return em_mk(T_CELL0, a); }

/* the function scope's constant table as far as this call extends it (contract of janetc_const: the returned index holds x;
 * indices below 0xFFFF; different values never share an index) */
#define EM_NCONST 5
static int32_t em_ck[EM_NCONST]; static Janet em_cx[EM_NCONST]; static int em_nconst;
static int em_const_may_fail;
int32_t em_const_stub(JanetCompiler *c, Janet x) {
    if (em_const_may_fail && nd_int()) { em_errors++; return 0; }          /* "too many constants" */
    int32_t k = nd_i32();
    __CPROVER_assume(k >= 0 && k < 0xFFFF);
    for (int j = 0; j < EM_NCONST; j++) if (j < em_nconst && em_ck[j] == k) __CPROVER_assume(em_cx[j].type == x.type && em_cx[j].as.u64 == x.as.u64);
    __CPROVER_assert(em_nconst < EM_NCONST, "harness: constant log suffices");
    if (em_nconst < EM_NCONST) { em_ck[em_nconst] = k; em_cx[em_nconst] = x; em_nconst++; }
    return k;
}
static emval em_const_at(uint32_t k) {
    emval v = em_mk(T_BAD, 1);
    for (int j = 0; j < EM_NCONST; j++) if (j < em_nconst && (uint32_t) em_ck[j] == k) v = em_valtok(em_cx[j]);
    return v;
}
/* contract of janetc_loadconst (proved on the real function in comp.emit.loadconst): exactly one instruction, after which
 * the near register holds the constant */
void em_loadconst_stub(JanetCompiler *c, Janet k, int32_t reg) {
    __CPROVER_assert(reg >= 0 && reg <= 0xFF, "comp.emit: constants are loaded into near registers only");
    int32_t idx = em_const_stub(c, k);
    janetc_emit(c, ((uint32_t) idx << 16) | ((uint32_t) reg << 8) | JOP_LOAD_CONSTANT);
}

/* ------------------------------------------------------------------ the abstract machine */
static int em_bad_instr;
/* executes instruction w as step number em_step_no (a concrete number at every call site). is_main: w is the requested
 * instruction, which - as far as this contract goes - writes RESULT to its first operand field f0 when wr is set. */
static void em_exec_at(int step, uint32_t w, int is_main, int wr, uint32_t f0) {
    uint32_t op = w & 0xFF, A = (w >> 8) & 0xFF, B = (w >> 16) & 0xFF, C = w >> 24, D = w >> 8, E = w >> 16;
    /* one register read (two for PUT_INDEX), at most one register write per instruction */
    int32_t rd = (op == JOP_MOVE_NEAR) ? (int32_t) E : (op == JOP_GET_INDEX) ? (int32_t) B : (int32_t) A;
    emval v1 = em_read(rd);
    int32_t wreg = -1; emval wv = em_mk(T_BAD, 0);
    if (is_main) { if (wr) { wreg = (int32_t) f0; wv = em_mk(T_RESULT, 0); } }
    else if (op == JOP_MOVE_NEAR) { wreg = (int32_t) A; wv = v1; }
    else if (op == JOP_MOVE_FAR) { wreg = (int32_t) E; wv = v1; }
    else if (op == JOP_LOAD_CONSTANT) { wreg = (int32_t) A; wv = em_const_at(E); }
    else if (op == JOP_LOAD_UPVALUE) { wreg = (int32_t) A; wv = em_up_read(B, C); }
    else if (op == JOP_SET_UPVALUE) { em_upw_v = v1; em_upw_e = B; em_upw_i = C; em_upw_n++; }
    else if (op == JOP_GET_INDEX) {
        wreg = (int32_t) A;
        wv = (v1.tag == (T_VAL | ((uint32_t) JANET_ARRAY << 8)) && C == 0) ? em_cell_read(v1.bits) : em_mk(T_BAD, 2);
    } else if (op == JOP_PUT_INDEX) {
        if (v1.tag == (T_VAL | ((uint32_t) JANET_ARRAY << 8)) && C == 0) { em_cellw_v = em_read((int32_t) B); em_cellw_a = v1.bits; em_cellw_n++; }
        else em_bad_instr = 1;
    }
#ifdef EM_REAL_LOADCONST
    else if (op == JOP_LOAD_NIL) { wreg = (int32_t) D; wv = em_mk(T_NIL, 0); }
    else if (op == JOP_LOAD_TRUE) { wreg = (int32_t) D; wv = em_mk(T_BOOL, 1); }
    else if (op == JOP_LOAD_FALSE) { wreg = (int32_t) D; wv = em_mk(T_BOOL, 0); }
    else if (op == JOP_LOAD_INTEGER) {
        union { double d; uint64_t u; } cv;
        int32_t es = (int32_t) E - ((E & 0x8000u) ? 0x10000 : 0);          /* ES: the signed reading of the 16-bit field */
        cv.d = (double) es;                                                /* janet_wrap_integer(ES) */
        wreg = (int32_t) A; wv = em_mk(T_NUM, cv.u);
    }
#endif
    else em_bad_instr = 1;
    em_wreg[step] = wreg; em_wval[step] = wv;
}
#define em_exec(step, w) em_exec_at((step), (w), 0, 0, 0)

/* ------------------------------------------------------------------ operand slots */
#ifndef EM_MAXUP
#define EM_MAXUP 0xFF            /* what the B and C fields of JOP_LOAD_UPVALUE / JOP_SET_UPVALUE can address */
#endif
static int em_is_local(JanetSlot s) { return !(s.flags & (JANET_SLOT_CONSTANT | JANET_SLOT_REF)) && s.envindex < 0; }
static int em_is_upvalue(JanetSlot s) { return !(s.flags & (JANET_SLOT_CONSTANT | JANET_SLOT_REF)) && s.envindex >= 0; }
static JanetSlot em_mkslot(void) {
    JanetSlot s;
    int kind = nd_int();
    uint32_t fl = nd_u32() & ~(uint32_t)(JANET_SLOT_CONSTANT | JANET_SLOT_REF);
    uint32_t ty = nd_u32();
    __CPROVER_assume(ty <= JANET_POINTER);
    s.constant.type = (JanetType) ty; s.constant.as.u64 = nd_u64();
    s.flags = fl; s.envindex = -1; s.index = -1;
    if (kind == 0) {                                   /* local register (janetc_farslot, janetc_gettarget, named locals) */
        s.index = nd_i32();
        __CPROVER_assume(s.index >= 0 && s.index <= 0xFFFF && !(s.index >= 0xF0 && s.index <= 0xFF));
    } else if (kind == 1) {                            /* constant (janetc_cslot) */
        s.flags |= JANET_SLOT_CONSTANT;
    } else if (kind == 2) {                            /* upvalue (janetc_resolve) */
        s.index = nd_i32(); s.envindex = nd_i32();
        __CPROVER_assume(s.index >= 0 && s.index <= EM_MAXUP && s.envindex >= 0 && s.envindex <= EM_MAXUP);
    } else {                                           /* reference to a one-element array (top-level var, dynamic binding) */
        s.flags |= JANET_SLOT_REF;
        s.constant.type = JANET_ARRAY;
    }
    return s;
}
static emval em_slotval(JanetSlot s) {
    if (s.flags & JANET_SLOT_REF) return em_cell_read(s.constant.as.u64);
    if (s.flags & JANET_SLOT_CONSTANT) return em_valtok(s.constant);
    if (s.envindex >= 0) return em_up_read((uint32_t) s.envindex, (uint32_t) s.index);
    return em_read(s.index);
}
static int em_same_place(JanetSlot a, JanetSlot b) {
    if ((a.flags & JANET_SLOT_REF) && (b.flags & JANET_SLOT_REF)) return a.constant.as.u64 == b.constant.as.u64;
    if (em_is_local(a) && em_is_local(b)) return a.index == b.index;
    if (em_is_upvalue(a) && em_is_upvalue(b)) return a.index == b.index && a.envindex == b.envindex;
    return 0;
}

/* ------------------------------------------------------------------ the call under test and the allocator contract */
static int em_nops; static JanetSlot em_s[3]; static emval em_sv0[3]; static int em_wr;
static int32_t em_glive;             /* ghost: ANY register that is live and stays live during the call */
#define EM_OWN 8
static int32_t em_own[EM_OWN]; static int em_own_live[EM_OWN]; static int em_nown;
static int32_t em_held;
static int32_t em_extra_live = -1;   /* a register argument of the helper under test that is live (or -1) */

static int em_reg_free(int32_t r) {
    if (r == em_glive || r == em_extra_live) return 0;
    for (int j = 0; j < 3; j++) if (j < em_nops && em_is_local(em_s[j]) && em_s[j].index == r) return 0;
    for (int k = 0; k < EM_OWN; k++) if (k < em_nown && em_own_live[k] && em_own[k] == r) return 0;
    return 1;
}
static void em_own_add(int32_t r) {
    for (int k = 0; k < EM_OWN; k++) if (k < em_nown && em_own[k] == r) { em_own_live[k] = 1; return; }
    __CPROVER_assert(em_nown < EM_OWN, "harness: allocation log suffices");
    if (em_nown < EM_OWN) { em_own[em_nown] = r; em_own_live[em_nown] = 1; em_nown++; }
}
static int em_owned_live(int32_t r) { for (int k = 0; k < EM_OWN; k++) if (k < em_nown && em_own_live[k] && em_own[k] == r) return 1; return 0; }
static int em_ever_owned(int32_t r) { for (int k = 0; k < EM_OWN; k++) if (k < em_nown && em_own[k] == r) return 1; return 0; }

/* janetc_regalloc_temp: a register below 256 that is not live - a free one below 0xF0, or 0xF0+tag when there is none;
 * precondition: the tag is not in use (the real function exits the process otherwise) */
int32_t em_temp_stub(JanetcRegisterAllocator *ra, JanetcRegisterTemp tag) {
    __CPROVER_assert((int) tag >= 0 && (int) tag <= 7 && !(em_held & (1 << tag)), "comp.emit: a temporary tag is requested only while it is not in use");
    em_held |= 1 << tag;
    if (nd_int()) return 0xF0 + (int32_t) tag;
    int32_t r = nd_i32();
    __CPROVER_assume(r >= 0 && r < 0xF0 && em_reg_free(r));
    em_own_add(r);
    return r;
}
/* janetc_regalloc_freetemp: releases the tag; frees the register when it is below 0xF0 (and does nothing else) */
void em_freetemp_stub(JanetcRegisterAllocator *ra, int32_t reg, JanetcRegisterTemp tag) {
    em_held &= ~(1 << tag);
    if (reg < 0xF0) {
        __CPROVER_assert(em_owned_live(reg), "comp.emit: only a register taken from the allocator by this call is freed (never a live one)");
        for (int k = 0; k < EM_OWN; k++) if (k < em_nown && em_own[k] == reg) em_own_live[k] = 0;
    }
}
/* janetc_regalloc_free: frees exactly its argument; precondition: a register this call took (never a live one) */
void em_free_stub(JanetcRegisterAllocator *ra, int32_t reg) {
    __CPROVER_assert(em_owned_live(reg), "comp.emit: only a register taken from the allocator by this call is freed (never a live one)");
    for (int k = 0; k < EM_OWN; k++) if (k < em_nown && em_own[k] == reg) em_own_live[k] = 0;
}
/* janetc_regalloc_1: any register that is not live and not a reserved temporary */
int32_t em_alloc1_stub(JanetcRegisterAllocator *ra) {
    int32_t r = nd_i32();
    __CPROVER_assume(r >= 0 && r <= 0x1FFFF && !(r >= 0xF0 && r <= 0xFF) && em_reg_free(r));
    em_own_add(r);
    return r;
}
void em_touch_stub(JanetcRegisterAllocator *ra, int32_t reg) {
    __CPROVER_assert(em_ever_owned(reg) && !em_owned_live(reg), "comp.emit: only a register this call has just released is re-taken");
    em_own_add(reg);
}

static void em_init(int nops) {
    em_bufmem.cap = EM_VCAP; em_bufmem.cnt = 0; em_mapmem.cap = EM_VCAP; em_mapmem.cnt = 0;
    em_c.buffer = em_bufmem.data; em_c.mapbuffer = em_mapmem.data;
    em_scope.parent = (JanetScope *)0; em_scope.child = (JanetScope *)0; em_scope.flags = JANET_SCOPE_FUNCTION;
    em_scope.consts = (Janet *)0; em_scope.syms = (SymPair *)0; em_scope.envs = (JanetEnvRef *)0; em_scope.defs = (JanetFuncDef **)0;
    em_c.scope = &em_scope;
    em_c.current_mapping.line = nd_i32(); em_c.current_mapping.column = nd_i32();
    for (int i = 0; i < EM_PRE; i++) janetc_emit(&em_c, nd_u32());
    em_errors = 0; for (int k = 0; k < EM_LOG; k++) em_wreg[k] = -1;
    em_upw_n = 0; em_cellw_n = 0; em_nconst = 0; em_nown = 0; em_held = 0; em_bad_instr = 0;
    em_const_may_fail = nd_int() & 1;
    em_nops = nops;
    for (int j = 0; j < 3; j++) if (j < nops) { em_s[j] = em_mkslot(); em_sv0[j] = em_slotval(em_s[j]); }
    em_glive = nd_i32();
    __CPROVER_assume(em_glive >= 0 && em_glive <= 0xFFFF && !(em_glive >= 0xF0 && em_glive <= 0xFF));
    em_wr = nd_int() & 1;
#ifdef EM_FIX_WR
    em_wr = EM_FIX_WR;      /* the unit covers one of the two cases (the other one: its sibling unit) */
#endif
    /* requires: a written destination is a place, not a literal */
    if (em_wr) __CPROVER_assume(!(em_s[0].flags & JANET_SLOT_CONSTANT));
}

#define SH_S 0      /* op | D                       */
#define SH_SX 1     /* op | A | E = immediate        */
#define SH_SS 2     /* op | A | E                    */
#define SH_SSX 3    /* op | A | B | C = immediate    */
#define SH_SSS 4    /* op | A | B | C                */

/* clause (d) for registers, in a function of its own so that the obligation name em_check_release.assertion.1 is stable */
static void em_check_release(void) {
    int leaked = 0;
    for (int k = 0; k < EM_OWN; k++) if (k < em_nown && em_own_live[k]) leaked = 1;
    __CPROVER_assert(!leaked, "comp.emit.release: every register taken from the allocator during the call (temporaries, janetc_allocfar spills) is given back before the emitter returns");
}
static void em_frame_checks(void) {
    __CPROVER_assert(!em_bad_instr, "comp.emit: only register-transfer instructions (loads, moves, upvalue and reference-cell accesses) surround the requested one");
    __CPROVER_assert(em_eq(em_read(em_glive), em_mk(T_REG0, (uint64_t)(uint32_t) em_glive)) ||
                     (em_wr && em_is_local(em_s[0]) && em_s[0].index == em_glive),
                     "comp.emit: no live register other than the destination is clobbered");
    __CPROVER_assert(em_upw_n == ((em_wr && em_is_upvalue(em_s[0])) ? 1 : 0), "comp.emit: no upvalue other than the destination is written");
    __CPROVER_assert(em_cellw_n == ((em_wr && (em_s[0].flags & JANET_SLOT_REF)) ? 1 : 0), "comp.emit: no reference cell other than the destination is written");
    __CPROVER_assert(em_held == 0, "comp.emit: every temporary tag is released");
#ifdef EM_CHECK_RELEASE
    em_check_release();
#endif
}

static void em_check(int32_t label, uint8_t op, int shape, uint32_t immfield) {
    int32_t n = janet_v_count(em_c.buffer);
    __CPROVER_assert(janet_v_count(em_c.mapbuffer) == n, "comp.emit: every instruction gets its source mapping");
    if (em_errors) { REACH("emit: compile error reported"); return; }
    __CPROVER_assert(label >= EM_PRE && label < n, "comp.emit: the returned label is the index of an emitted instruction");
    __CPROVER_assert(n - EM_PRE <= EM_MAXSEQ, "harness: sequence bound suffices");
    for (int k = 0; k < EM_MAXSEQ; k++) {
        int32_t idx = EM_PRE + k;
        if (idx < n) {
            uint32_t w = em_c.buffer[idx];
            if (idx != label) { em_exec(k, w); continue; }
            /* the requested instruction */
            uint32_t f[3]; f[0] = (w >> 8) & 0xFF; f[1] = (w >> 16) & 0xFF; f[2] = w >> 24;
            if (shape == SH_S) f[0] = w >> 8;
            if (shape == SH_SS) f[1] = w >> 16;
            __CPROVER_assert((w & 0xFF) == op, "comp.emit: the requested opcode is emitted at the returned label");
            if (shape == SH_SX) __CPROVER_assert((w >> 16) == immfield, "comp.emit: the 16-bit immediate is encoded unchanged");
            if (shape == SH_SSX) __CPROVER_assert((w >> 24) == immfield, "comp.emit: the 8-bit immediate is encoded unchanged");
            for (int j = 0; j < 3; j++) if (j < em_nops && !(j == 0 && em_wr))
                __CPROVER_assert(em_eq(em_read((int32_t) f[j]), em_sv0[j]), "comp.emit: each source operand field names a register holding its slot's value when the instruction executes");
            em_exec_at(k, w, 1, em_wr, f[0]);
        }
    }
    if (em_wr) {
        __CPROVER_assert(em_eq(em_slotval(em_s[0]), em_mk(T_RESULT, 0)), "comp.emit: the written result reaches the destination slot");
    }
    for (int j = 0; j < 3; j++) if (j < em_nops && !(em_wr && (j == 0 || em_same_place(em_s[j], em_s[0]))))
        __CPROVER_assert(em_eq(em_slotval(em_s[j]), em_sv0[j]), "comp.emit: source slots keep their values");
    em_frame_checks();
    if (n - EM_PRE > 1) REACH("emit: operands were moved");
    REACH("emit: normal return");
}
#if defined(EM_FIX_WR) && EM_FIX_WR == 0
#define EM_REACH_WR() do { } while (0)
#else
#define EM_REACH_WR() do { if (!em_errors && em_wr) { REACH("emit: written destination"); if (em_is_local(em_s[0]) && em_s[0].index > 0xFF) REACH("emit: far destination written back"); \
                                                      if (em_is_upvalue(em_s[0])) REACH("emit: upvalue destination"); if (em_s[0].flags & JANET_SLOT_REF) REACH("emit: reference destination"); } } while (0)
#endif

/* ------------------------------------------------------------------ entries: the public emitters */
void h_emit_s(void) {
    em_init(1); uint8_t op = nd_u8();
#ifndef EM_S_ANYDEST
    /* requires: janetc_emit_s writes (wr) only local destinations - all its callers pass janetc_gettarget / janetc_farslot
     * slots; the other kinds are comp.emit.s.wr-nonlocal */
    if (em_wr) __CPROVER_assume(em_is_local(em_s[0]));
#endif
    int32_t label = janetc_emit_s(&em_c, op, em_s[0], em_wr);
    em_check(label, op, SH_S, 0);
    if (!em_errors && em_wr) REACH("emit: written destination");
}
void h_emit_si(void) {
    em_init(1); uint8_t op = nd_u8(); int16_t imm = (int16_t) nd_int();
    int32_t label = janetc_emit_si(&em_c, op, em_s[0], imm, em_wr);
    em_check(label, op, SH_SX, (uint32_t)(uint16_t) imm);
    EM_REACH_WR();
    if (!em_errors) __CPROVER_assert(((int32_t) em_c.buffer[label] >> 16) == (int32_t) imm, "comp.emit: the interpreter's signed reading ES of the field gives the immediate back");
}
void h_emit_su(void) {
    em_init(1); uint8_t op = nd_u8(); uint16_t imm = (uint16_t) nd_uint();
    int32_t label = janetc_emit_su(&em_c, op, em_s[0], imm, em_wr);
    em_check(label, op, SH_SX, (uint32_t) imm);
    EM_REACH_WR();
}
void h_emit_st(void) {
    em_init(1); uint8_t op = nd_u8(); int32_t tflags = nd_i32();
    __CPROVER_assume(tflags >= 0 && tflags <= 0xFFFF);      /* requires: a set of the 16 type bits */
    __CPROVER_assume(!em_wr);
    int32_t label = janetc_emit_st(&em_c, op, em_s[0], tflags);
    em_check(label, op, SH_SX, (uint32_t) tflags);
}
void h_emit_ss(void) {
    em_init(2); uint8_t op = nd_u8();
    int32_t label = janetc_emit_ss(&em_c, op, em_s[0], em_s[1], em_wr);
    em_check(label, op, SH_SS, 0);
    EM_REACH_WR();
}
void h_emit_ssi(void) {
    em_init(2); uint8_t op = nd_u8(); int8_t imm = (int8_t) nd_int();
    int32_t label = janetc_emit_ssi(&em_c, op, em_s[0], em_s[1], imm, em_wr);
    em_check(label, op, SH_SSX, (uint32_t)(uint8_t) imm);
    EM_REACH_WR();
    if (!em_errors) __CPROVER_assert(((int32_t) em_c.buffer[label] >> 24) == (int32_t) imm, "comp.emit: the interpreter's signed reading CS of the field gives the immediate back");
}
void h_emit_ssu(void) {
    em_init(2); uint8_t op = nd_u8(); uint8_t imm = nd_u8();
    int32_t label = janetc_emit_ssu(&em_c, op, em_s[0], em_s[1], imm, em_wr);
    em_check(label, op, SH_SSX, (uint32_t) imm);
    EM_REACH_WR();
}
void h_emit_sss(void) {
    em_init(3); uint8_t op = nd_u8();
    int32_t label = janetc_emit_sss(&em_c, op, em_s[0], em_s[1], em_s[2], em_wr);
    em_check(label, op, SH_SSS, 0);
    EM_REACH_WR();
}
/* janetc_emit_sl(op, s, label): a conditional jump on s whose target is the instruction with index `label` */
void h_emit_sl(void) {
    em_init(1); uint8_t op = nd_u8(); int32_t target = nd_i32();
    __CPROVER_assume(target >= 0 && target <= 0x100000);
    __CPROVER_assume(!em_wr);
    int32_t label = janetc_emit_sl(&em_c, op, em_s[0], target);
    if (!em_errors) {
        __CPROVER_assert(label + ((int32_t) em_c.buffer[label] >> 16) == target, "comp.emit: the jump emitted by janetc_emit_sl lands on the requested label");
        em_check(label, op, SH_SX, em_c.buffer[label] >> 16);
    } else REACH("emit_sl: compile error (jump is too far, or too many constants)");
}

/* ------------------------------------------------------------------ janetc_copy(dest, src): afterwards dest holds src's value */
int em_equals_stub(Janet x, Janet y) { return x.type == y.type && x.as.u64 == y.as.u64; }     /* identical values are equal; distinct reference arrays are not */
void h_copy(void) {
    em_init(2);
    em_wr = 0;
    JanetSlot dest = em_s[0], src = em_s[1];
    int same = em_same_place(dest, src) && ((dest.flags ^ src.flags) & ~(uint32_t) JANET_SLOTTYPE_ANY) == 0;      /* the same slot */
    janetc_copy(&em_c, dest, src);
    int32_t n = janet_v_count(em_c.buffer);
    __CPROVER_assert(janet_v_count(em_c.mapbuffer) == n, "comp.emit: every instruction gets its source mapping");
    if (dest.flags & JANET_SLOT_CONSTANT) {
        __CPROVER_assert(em_errors > 0 && n == EM_PRE, "comp.copy: writing to a constant is a compile error and emits nothing");
        REACH("copy: constant destination refused");
        return;
    }
    if (em_errors) { REACH("copy: compile error reported"); return; }
    __CPROVER_assert(n - EM_PRE <= EM_MAXSEQ, "harness: sequence bound suffices");
    for (int k = 0; k < EM_MAXSEQ; k++) if (EM_PRE + k < n) em_exec(k, em_c.buffer[EM_PRE + k]);
    __CPROVER_assert(em_eq(em_slotval(dest), em_sv0[1]), "comp.copy: afterwards the destination holds the source's value");
    __CPROVER_assert(em_eq(em_slotval(src), em_sv0[1]), "comp.copy: the source keeps its value");
    if (same) { __CPROVER_assert(n == EM_PRE, "comp.copy: copying a slot onto itself emits nothing"); REACH("copy: same slot"); }
    /* frame: as for the emitters, the destination being the only place written */
    em_wr = 1;
    if (same || n == EM_PRE) { em_wr = 0; }
    __CPROVER_assert(!em_bad_instr, "comp.emit: only register-transfer instructions (loads, moves, upvalue and reference-cell accesses) surround the requested one");
    __CPROVER_assert(em_eq(em_read(em_glive), em_mk(T_REG0, (uint64_t)(uint32_t) em_glive)) || (em_is_local(dest) && dest.index == em_glive),
                     "comp.emit: no live register other than the destination is clobbered");
    __CPROVER_assert(em_upw_n == 0 || (em_upw_n == 1 && em_is_upvalue(dest)), "comp.emit: no upvalue other than the destination is written");
    __CPROVER_assert(em_cellw_n == 0 || (em_cellw_n == 1 && (dest.flags & JANET_SLOT_REF)), "comp.emit: no reference cell other than the destination is written");
    __CPROVER_assert(em_held == 0, "comp.emit: every temporary tag is released");
#ifdef EM_CHECK_RELEASE
    em_check_release();
#endif
    if (em_is_local(dest) && dest.index > 0xFF && em_is_local(src) && src.index > 0xFF) REACH("copy: far to far through a temporary");
    if ((dest.flags & JANET_SLOT_REF) && em_is_upvalue(src)) REACH("copy: upvalue to reference cell");
    REACH("copy: normal return");
}

/* ------------------------------------------------------------------ upvalues beyond the 8-bit fields (-DEM_MAXUP=0xFFFF): KNOWN FINDING
 * JOP_LOAD_UPVALUE / JOP_SET_UPVALUE address environment and register with 8 bits each (vm.c B, C). A captured local in a
 * register above 255, or the 257th captured environment, must therefore still be read / written correctly by some other
 * sequence, or be refused with a compile error. The two obligations live in functions of their own so that their names
 * (em_upvalue_range_read.assertion.1, em_upvalue_range_write.assertion.1) do not depend on the rest of the harness. */
static void em_upvalue_range_read(JanetSlot dest, emval want) {
    __CPROVER_assert(em_errors > 0 || em_eq(em_slotval(dest), want), "comp.emit.upvalue-range: reading an upvalue whose register or environment number exceeds 255 yields that upvalue's value, or a compile error is reported (LOAD_UPVALUE has 8-bit fields)");
}
static void em_upvalue_range_write(JanetSlot dest, emval want) {
    __CPROVER_assert(em_errors > 0 || (em_upw_n == 1 && em_upw_e == (uint32_t) dest.envindex && em_upw_i == (uint32_t) dest.index && em_eq(em_upw_v, want)),
                     "comp.emit.upvalue-range: writing an upvalue whose register or environment number exceeds 255 writes that upvalue, or a compile error is reported (SET_UPVALUE has 8-bit fields)");
}
void h_upvalue_range(void) {
    em_init(2); em_wr = 0;
    /* one side is an upvalue (any register 0..0xFFFF of any environment 0..0xFFFF), the other a near local */
    JanetSlot up = em_s[0], loc = em_s[1];
    __CPROVER_assume(em_is_upvalue(up) && em_is_local(loc) && loc.index <= 0xEF);
    int to_upvalue = nd_int() & 1;
    emval want = to_upvalue ? em_sv0[1] : em_sv0[0];
    if (to_upvalue) janetc_copy(&em_c, up, loc); else janetc_copy(&em_c, loc, up);
    int32_t n = janet_v_count(em_c.buffer);
    __CPROVER_assert(n - EM_PRE <= EM_MAXSEQ, "harness: sequence bound suffices");
    for (int k = 0; k < EM_MAXSEQ; k++) if (EM_PRE + k < n) em_exec(k, em_c.buffer[EM_PRE + k]);
    if (to_upvalue) { em_upvalue_range_write(up, want); REACH("upvalue-range: written"); }
    else { em_upvalue_range_read(loc, want); REACH("upvalue-range: read"); }
    if (up.index > 0xFF) REACH("upvalue-range: register beyond 255");
    if (up.envindex > 0xFF) REACH("upvalue-range: environment beyond 255");
}

/* ------------------------------------------------------------------ the helpers one by one */
/* janetc_movenear(dest, src): the near register dest holds src's value afterwards; nothing else changes */
void h_movenear(void) {
    em_init(1); em_wr = 0;
    int32_t dest = nd_i32();
    __CPROVER_assume(dest >= 0 && dest <= 0xFF);
    janetc_movenear(&em_c, dest, em_s[0]);
    int32_t n = janet_v_count(em_c.buffer);
    if (em_errors) { REACH("movenear: compile error reported"); return; }
    for (int k = 0; k < 3; k++) if (EM_PRE + k < n) em_exec(k, em_c.buffer[EM_PRE + k]);
    __CPROVER_assert(n - EM_PRE <= 3, "harness: sequence bound suffices");
    __CPROVER_assert(em_eq(em_read(dest), em_sv0[0]), "comp.movenear: the near register holds the slot's value");
    __CPROVER_assert(!em_bad_instr && em_upw_n == 0 && em_cellw_n == 0, "comp.movenear: only loads and moves; no upvalue or reference cell is written");
    __CPROVER_assert(em_glive == dest || em_eq(em_read(em_glive), em_mk(T_REG0, (uint64_t)(uint32_t) em_glive)), "comp.movenear: no other register changes");
    __CPROVER_assert(em_nown == 0 && em_held == 0, "comp.movenear: takes no register");
    if (em_s[0].flags & JANET_SLOT_REF) REACH("movenear: reference dereferenced");
    if (em_is_local(em_s[0]) && em_s[0].index > 0xFF) REACH("movenear: far local");
    REACH("movenear: normal return");
}
/* janetc_moveback(dest, src): the destination slot holds what the near register src held; only the destination changes */
void h_moveback(void) {
    em_init(1); em_wr = 1;
    __CPROVER_assume(!(em_s[0].flags & JANET_SLOT_CONSTANT));
    int32_t src = nd_i32();
    __CPROVER_assume(src >= 0 && src <= 0xFF);
    __CPROVER_assume(src != 0xF0 + JANETC_REGTEMP_5);      /* requires: not the reserved temporary of the tag moveback uses itself (callers hold tags 0..3) */
    em_extra_live = src;
    emval v0 = em_read(src);
    janetc_moveback(&em_c, em_s[0], src);
    int32_t n = janet_v_count(em_c.buffer);
    if (em_errors) { REACH("moveback: compile error reported"); return; }
    for (int k = 0; k < 3; k++) if (EM_PRE + k < n) em_exec(k, em_c.buffer[EM_PRE + k]);
    __CPROVER_assert(n - EM_PRE <= 3, "harness: sequence bound suffices");
    __CPROVER_assert(em_eq(em_slotval(em_s[0]), v0), "comp.moveback: the destination slot holds the register's value");
    __CPROVER_assert(em_eq(em_read(src), v0) || (em_is_local(em_s[0]) && em_s[0].index == src), "comp.moveback: the source register keeps its value");
    em_frame_checks();
    if (em_s[0].flags & JANET_SLOT_REF) REACH("moveback: reference cell written");
    if (em_is_upvalue(em_s[0])) REACH("moveback: upvalue written");
    REACH("moveback: normal return");
}
/* janetc_regnear(s, tag): a register below 256 holding s's value: s's own register or a temporary under the tag */
void h_regnear(void) {
    em_init(1); em_wr = 0;
    int tag = nd_int();
    __CPROVER_assume(tag >= 0 && tag <= 7);
    int32_t r = janetc_regnear(&em_c, em_s[0], (JanetcRegisterTemp) tag);
    int32_t n = janet_v_count(em_c.buffer);
    if (em_errors) { REACH("regnear: compile error reported"); return; }
    for (int k = 0; k < 3; k++) if (EM_PRE + k < n) em_exec(k, em_c.buffer[EM_PRE + k]);
    __CPROVER_assert(n - EM_PRE <= 3, "harness: sequence bound suffices");
    __CPROVER_assert(r >= 0 && r <= 0xFF, "comp.regnear: the register fits an 8-bit operand field");
    __CPROVER_assert(em_eq(em_read(r), em_sv0[0]), "comp.regnear: the register holds the slot's value");
    __CPROVER_assert(!em_bad_instr && em_upw_n == 0 && em_cellw_n == 0, "comp.movenear: only loads and moves; no upvalue or reference cell is written");
    __CPROVER_assert(em_eq(em_read(em_glive), em_mk(T_REG0, (uint64_t)(uint32_t) em_glive)), "comp.regnear: no live register changes");
    if (em_is_local(em_s[0]) && em_s[0].index <= 0xFF) __CPROVER_assert(r == em_s[0].index && n == EM_PRE && em_held == 0, "comp.regnear: a near local is used in place");
    else __CPROVER_assert(em_held == (1 << tag) && (r == 0xF0 + tag || em_owned_live(r)), "comp.regnear: otherwise the register is a temporary held under the tag");
    /* and janetc_free_regnear gives exactly that back */
    janetc_free_regnear(&em_c, em_s[0], r, (JanetcRegisterTemp) tag);
    __CPROVER_assert(em_held == 0, "comp.emit: every temporary tag is released");
    for (int k = 0; k < EM_OWN; k++)
        __CPROVER_assert(!(k < em_nown && em_own_live[k]), "comp.emit: every register taken from the allocator is given back");
    REACH("regnear: normal return");
}
/* janetc_regfar(s, tag): a register below 65536 holding s's value; the tag is free again on return */
void h_regfar(void) {
    em_init(1); em_wr = 0;
    int tag = nd_int();
    __CPROVER_assume(tag >= 0 && tag <= 7);
    int32_t r = janetc_regfar(&em_c, em_s[0], (JanetcRegisterTemp) tag);
    int32_t n = janet_v_count(em_c.buffer);
    if (em_errors) { REACH("regfar: compile error reported"); return; }
    for (int k = 0; k < 4; k++) if (EM_PRE + k < n) em_exec(k, em_c.buffer[EM_PRE + k]);
    __CPROVER_assert(n - EM_PRE <= 4, "harness: sequence bound suffices");
    __CPROVER_assert(r >= 0 && r <= 0xFFFF, "comp.regfar: the register fits a 16-bit operand field");
    __CPROVER_assert(em_eq(em_read(r), em_sv0[0]), "comp.regfar: the register holds the slot's value");
    __CPROVER_assert(!em_bad_instr && em_upw_n == 0 && em_cellw_n == 0, "comp.movenear: only loads and moves; no upvalue or reference cell is written");
    __CPROVER_assert(em_eq(em_read(em_glive), em_mk(T_REG0, (uint64_t)(uint32_t) em_glive)), "comp.regfar: no live register changes");
    if (em_is_local(em_s[0])) __CPROVER_assert(r == em_s[0].index && n == EM_PRE && em_nown == 0, "comp.regfar: a local is used in place");
    else __CPROVER_assert(em_owned_live(r), "comp.regfar: otherwise the register is taken from the allocator");
    __CPROVER_assert(em_held == 0, "comp.emit: every temporary tag is released");
    janetc_free_regnear(&em_c, em_s[0], r, (JanetcRegisterTemp) tag);
    __CPROVER_assert(em_held == 0, "comp.emit: every temporary tag is released");
#ifdef EM_CHECK_RELEASE
    em_check_release();
#endif
    if (r > 0xFF && !em_is_local(em_s[0])) REACH("regfar: spilled to a far register");
    REACH("regfar: normal return");
}

/* ------------------------------------------------------------------ janetc_loadconst on the real function (-DEM_REAL_LOADCONST) */
#ifdef EM_REAL_LOADCONST
void h_loadconst(void) {
    em_init(0); em_wr = 0;
    Janet k; uint32_t ty = nd_u32();
    __CPROVER_assume(ty <= JANET_POINTER);
    k.type = (JanetType) ty; k.as.u64 = nd_u64();
#ifndef EM_NEGZERO
    __CPROVER_assume(!(k.type == JANET_NUMBER && k.as.u64 == 0x8000000000000000ull));      /* -0.0: see comp.emit.loadconst.negzero */
#endif
#ifndef EM_NAN
    __CPROVER_assume(!(k.type == JANET_NUMBER && k.as.number != k.as.number));              /* NaN: see comp.emit.loadconst.nan */
#endif
    int32_t reg = nd_i32();
    __CPROVER_assume(reg >= 0 && reg <= 0xFF);
    janetc_loadconst(&em_c, k, reg);
    int32_t n = janet_v_count(em_c.buffer);
    __CPROVER_assert(n == EM_PRE + 1, "comp.loadconst: exactly one instruction");
    if (em_errors) { REACH("loadconst: compile error reported"); return; }
    em_exec(0, em_c.buffer[EM_PRE]);
    __CPROVER_assert(!em_bad_instr, "comp.loadconst: a load instruction");
    __CPROVER_assert(em_eq(em_read(reg), em_valtok(k)), "comp.loadconst: the register holds exactly the constant");
    __CPROVER_assert(em_glive == reg || em_eq(em_read(em_glive), em_mk(T_REG0, (uint64_t)(uint32_t) em_glive)), "comp.loadconst: no other register changes");
    if (em_nconst == 0) REACH("loadconst: immediate load"); else REACH("loadconst: constant table");
    if ((em_c.buffer[EM_PRE] & 0xFF) == JOP_LOAD_INTEGER) REACH("loadconst: small integer");
    REACH("loadconst: normal return");
}
#endif

/* ------------------------------------------------------------------ janetc_const on the real function (-DEM_REAL_CONST) */
#ifdef EM_REAL_CONST
#define EMC_CAP 8
#ifndef EMC_MAXLEN
#define EMC_MAXLEN 4
#endif
static struct { int32_t cap, cnt; Janet data[EMC_CAP]; } emc_mem;
static uint8_t emc_cls[EMC_CAP + 1];      /* an arbitrary equivalence (janet_equals) over the table entries and x, as class numbers */
static Janet emc_x;
static int emc_class_of(Janet v) {
    if (v.as.u64 == emc_x.as.u64 && v.type == emc_x.type) return emc_cls[EMC_CAP];
    for (int i = 0; i < EMC_CAP; i++) if (emc_mem.data[i].as.u64 == v.as.u64 && emc_mem.data[i].type == v.type) return emc_cls[i];
    return -1;
}
int emc_equals_stub(Janet a, Janet b) { return emc_class_of(a) == emc_class_of(b); }
void h_const(void) {
    static JanetScope inner, mid;
    em_init(0);
    int32_t len = nd_i32();
    __CPROVER_assume(len >= 0 && len <= EMC_MAXLEN);
    emc_mem.cap = EMC_CAP; emc_mem.cnt = len;
    /* table entries and x are pairwise distinct objects (identified by position); their equivalence classes are arbitrary */
    for (int i = 0; i < EMC_CAP; i++) { emc_mem.data[i].type = JANET_STRING; emc_mem.data[i].as.u64 = 100 + (uint64_t) i; emc_cls[i] = nd_u8(); }
    emc_x.type = JANET_STRING; emc_x.as.u64 = 99; emc_cls[EMC_CAP] = nd_u8();
    Janet old[EMC_CAP];
    for (int i = 0; i < EMC_CAP; i++) old[i] = emc_mem.data[i];
    /* scope chain of 1..3 scopes; the constants belong to the nearest enclosing FUNCTION scope */
    int depth = nd_int();
    __CPROVER_assume(depth >= 0 && depth <= 2);
    em_scope.consts = (len > 0 || nd_int()) ? emc_mem.data : (Janet *)0;
    __CPROVER_assume(em_scope.consts != (Janet *)0);      /* (an empty table that is still NULL grows through janet_v_grow: comp.srcmap.emit) */
    inner.flags = nd_int() & ~JANET_SCOPE_FUNCTION; mid.flags = nd_int() & ~JANET_SCOPE_FUNCTION;
    inner.consts = (Janet *)0; mid.consts = (Janet *)0;
    if (depth == 0) em_c.scope = &em_scope;
    else if (depth == 1) { inner.parent = &em_scope; em_c.scope = &inner; }
    else { inner.parent = &mid; mid.parent = &em_scope; em_c.scope = &inner; }
    int32_t k = janetc_const(&em_c, emc_x);
    int32_t nlen = emc_mem.cnt;
    int existed = 0; for (int i = 0; i < EMC_MAXLEN; i++) if (i < len && emc_cls[i] == emc_cls[EMC_CAP]) existed = 1;
    __CPROVER_assert(em_errors == 0, "comp.const: a table below the limit takes the constant");
    __CPROVER_assert(k >= 0 && k < nlen && k < 0xFFFF, "comp.const: the index is in the table and fits the 16-bit field");
    __CPROVER_assert(emc_equals_stub(emc_mem.data[k], emc_x), "comp.const: the table holds the constant at the returned index");
    for (int i = 0; i < EMC_MAXLEN; i++) if (i < len) __CPROVER_assert(emc_mem.data[i].as.u64 == old[i].as.u64 && emc_mem.data[i].type == old[i].type, "comp.const: existing entries keep their indices");
    if (existed) { __CPROVER_assert(nlen == len, "comp.const: equal constants share one index (no new entry)"); REACH("const: shared"); }
    else { __CPROVER_assert(nlen == len + 1 && k == len, "comp.const: a new constant is appended"); REACH("const: appended"); }
    __CPROVER_assert(inner.consts == (Janet *)0 && mid.consts == (Janet *)0, "comp.const: constants go to the enclosing function's table, not to a block scope's");
    if (depth == 2) REACH("const: through two block scopes");
}
/* (the limit test len >= 0xFFFF lies behind a loop over the whole table: not covered, see the unit's bound) */
#endif

/* ------------------------------------------------------------------ the real allocator: a temporary taken and released (-DEM_REAL_REGALLOC, src emit.c + regalloc.c) */
#ifdef EM_REAL_REGALLOC
#define RT_CAP 16
#define RT_MAXCHUNKS 10
static uint32_t rt_chunks[RT_CAP];
void h_temp_roundtrip(void) {
    JanetcRegisterAllocator ra;
    int32_t count = nd_i32();
    __CPROVER_assume(count >= 1 && count <= RT_MAXCHUNKS);
    for (int i = 0; i < RT_CAP; i++) rt_chunks[i] = nd_u32();
    ra.chunks = rt_chunks; ra.capacity = RT_CAP; ra.count = count; ra.max = nd_i32(); ra.regtemps = nd_i32() & 0xFF;
    __CPROVER_assume(ra.max >= 0 && ra.max <= 0xFFFF);
    if (count > 7) __CPROVER_assume((rt_chunks[7] & 0xFFFF0000u) == 0xFFFF0000u);      /* wf_ra: the reserved temporaries are always allocated */
    int tag = nd_int();
    __CPROVER_assume(tag >= 0 && tag <= 7 && !(ra.regtemps & (1 << tag)));              /* requires: the tag is free */
    int32_t tags0 = ra.regtemps;
    int32_t g = nd_i32();                                                                /* ghost: any register */
    __CPROVER_assume(g >= 0 && g < RT_CAP * 32);
    /* abstract set of the regalloc.* units: the reserved temporaries 0xF0..0xFF are members from the start (chunk 7 is born with them) */
    int before = (g >= 0xF0 && g <= 0xFF) || ((g >> 5) < ra.count && ((rt_chunks[g >> 5] >> (g & 31)) & 1u));
    int32_t reg = janetc_regalloc_temp(&ra, (JanetcRegisterTemp) tag);
    __CPROVER_assert(reg >= 0 && reg <= 0xFF, "comp.regalloc: a temporary fits 8 bits");
    janetc_regalloc_freetemp(&ra, reg, (JanetcRegisterTemp) tag);
    int after = (g >= 0xF0 && g <= 0xFF) || ((g >> 5) < ra.count && ((rt_chunks[g >> 5] >> (g & 31)) & 1u));
    __CPROVER_assert(ra.regtemps == tags0, "comp.regalloc: the tag is free again");
    __CPROVER_assert(after == before, "comp.regalloc: taking and releasing a temporary leaves the set of allocated registers as it was (no register is consumed)");
    if (reg >= 0xF0) REACH("roundtrip: reserved temporary (near registers exhausted)");
    REACH("roundtrip: normal return");
}
#endif

