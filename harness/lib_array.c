/* C04 / C17 (C level): the registered C functions of array.c not covered by seq_array_cfun.c - array/new, array/weak,
 * array/new-filled, array/fill, array/slice, array/concat, array/join - under dfcc contracts. Conventions of
 * seq_array_cfun.c: wf_array, allocator and bulk-copy models of seq_common.h (element = the 8 byte nanboxed Janet,
 * compared through .u64); the argument getters of capi.c are trusted stubs asserting "argument slot index below argc":
 *   janet_getarray  -> g_arr (slot 0, any wf_array built by the harness)
 *   janet_getinteger-> low 32 bits of the slot; janet_getnat -> the same, returns only when that is >= 0
 *   janet_getindexed-> g_view (slot 0 of array/slice: any indexed view, len >= 0, items readable)
 *   janet_getslice  -> its contract (unit seq.capi.getslice)
 *   janet_indexed_view (util.c) -> a pure function of the value: an ARRAY / TUPLE slot whose bits equal slot 0 is the array
 *                      g_arr itself and yields its CURRENT data / count (so a stale pointer kept across a reallocation
 *                      is a dangling read); any other ARRAY / TUPLE slot yields the separate view g_part
 *   janet_gcalloc   -> fresh block
 * realloc: calls are redirected (--replace-calls) to lib_realloc_j, a copy of the seq_common.h model that keeps the
 * elements at TWO ghost indices (g_idx, g_idx2): a self-concat relates a source and a destination position. */
#include "seq_common.h"

JanetArray *g_arr;
int32_t g_argc;
JanetView g_view;            /* slot 0 of array/slice */
JanetView g_part;            /* the view of every ARRAY / TUPLE part that is not the array itself */
void *g_new0, *g_new1;
int32_t g_idx2, g_j;
enum JanetMemoryType g_new_type;

#define SLOT_OK(n) __CPROVER_assert((n) >= 0 && (n) < g_argc, "argument slot index below argc")
#define SLOT_INT(argv, n) ((int32_t)((int64_t)((argv)[n].u64 & 0xFFFFFFFFull) - (((argv)[n].u64 & 0x80000000ull) ? 0x100000000ll : 0ll)))
void janet_fixarity(int32_t argc, int32_t fix) { __CPROVER_assume(argc == fix); }
void janet_arity(int32_t argc, int32_t min, int32_t max) { __CPROVER_assume(argc >= min && (max < 0 || argc <= max)); }
JanetArray *janet_getarray(const Janet *argv, int32_t n) { SLOT_OK(n); __CPROVER_assert(n == 0, "array is slot 0"); return g_arr; }
int32_t janet_getinteger(const Janet *argv, int32_t n) { SLOT_OK(n); return SLOT_INT(argv, n); }
int32_t janet_getnat(const Janet *argv, int32_t n) { SLOT_OK(n); __CPROVER_assume(SLOT_INT(argv, n) >= 0); return SLOT_INT(argv, n); }
JanetView janet_getindexed(const Janet *argv, int32_t n) { SLOT_OK(n); __CPROVER_assert(n == 0, "view is slot 0"); return g_view; }
JanetRange g_range;
JanetRange janet_getslice(int32_t argc, const Janet *argv) {
  __CPROVER_assume(argc >= 1 && argc <= 3 && 0 <= g_range.start && g_range.start <= g_range.end && g_range.end <= g_view.len);
  return g_range;
}
void *janet_gcalloc(enum JanetMemoryType type, size_t size) {
  void *p = malloc(size);
  __CPROVER_assume(p != SEQ_NULL);
  if (g_new0 == SEQ_NULL) { g_new0 = p; g_new_type = type; } else g_new1 = p;
  return p;
}
uint64_t g_self_bits;        /* bits of slot 0 (the array) */
int g_view_calls;
int janet_indexed_view(Janet seq, const Janet **data, int32_t *len) {
  g_view_calls++;
  if (!janet_checktype(seq, JANET_ARRAY) && !janet_checktype(seq, JANET_TUPLE)) return 0;
  if (janet_checktype(seq, JANET_ARRAY) && seq.u64 == g_self_bits) { *data = g_arr->data; *len = g_arr->count; }
  else { *data = g_part.items; *len = g_part.len; }
  return 1;
}
void *lib_realloc_j(void *p, size_t n) {
  size_t k = n / sizeof(Janet);
  __CPROVER_assert(k * sizeof(Janet) == n, "realloc model: size is a multiple of the element size");
  if (nd_int()) return SEQ_NULL;
  Janet *q = malloc(k * sizeof(Janet));
  if (q == SEQ_NULL) return SEQ_NULL;
  if (p != SEQ_NULL) {
    if (g_idx >= 0 && ((size_t)g_idx + 1) * sizeof(Janet) <= __CPROVER_OBJECT_SIZE(p) && (size_t)g_idx < k) q[g_idx] = ((Janet *)p)[g_idx];
    if (g_idx2 >= 0 && ((size_t)g_idx2 + 1) * sizeof(Janet) <= __CPROVER_OBJECT_SIZE(p) && (size_t)g_idx2 < k) q[g_idx2] = ((Janet *)p)[g_idx2];
    free(p);
  }
  return q;
}

static void mk_view(JanetView *v, int32_t maxlen) {
  v->len = nd_i32();
  __CPROVER_assume(v->len >= 0 && v->len <= maxlen);
  Janet *p = malloc((size_t)v->len * sizeof(Janet));
  __CPROVER_assume(p != SEQ_NULL);
  v->items = p;
}
#ifndef LIB_MAXPART
#define LIB_MAXPART INT32_MAX
#endif
static Janet *mk_args(void) {
  g_argc = nd_i32();
  __CPROVER_assume(g_argc >= 0);
  Janet *argv = malloc((size_t)g_argc * sizeof(Janet));
  __CPROVER_assume(argv != SEQ_NULL);
  g_arr = mk_array();
  mk_view(&g_view, INT32_MAX);
  mk_view(&g_part, LIB_MAXPART);
  g_new0 = SEQ_NULL; g_new1 = SEQ_NULL;
  /* slot 0 holds the array: some bit pattern of type ARRAY (the pointer bits themselves are never decoded: janet_getarray
   * and janet_indexed_view are stubs) */
  if (g_argc > 0) { __CPROVER_assume(janet_checktype(argv[0], JANET_ARRAY)); g_self_bits = argv[0].u64; }
  return argv;
}
#define GHOST_IN(a) (g_idx >= 0 && g_idx < (a)->count)
#define ARGS_PRE __CPROVER_requires(argc == g_argc && argc >= 0 && __CPROVER_r_ok(argv, (size_t)argc * JSZ) && g_new0 == SEQ_NULL)
#define VIEW_OK(v) ((v).len >= 0 && ((v).len == 0 || __CPROVER_r_ok((v).items, (size_t)(v).len * JSZ)))
#define CF_PRE ARGS_PRE \
  __CPROVER_requires(WF_ARRAY(g_arr)) \
  __CPROVER_requires(g_oldcount == g_arr->count && g_oldcap == g_arr->capacity) \
  __CPROVER_requires(GHOST_IN(g_arr) ==> A_ELEM(g_arr, g_idx) == g_val)
#define CF_FRAME \
  __CPROVER_assigns(g_arr->data, g_arr->capacity, g_arr->count, janet_vm.next_collection, g_view_calls; g_arr->capacity > 0: __CPROVER_object_whole(g_arr->data)) \
  __CPROVER_frees(g_arr->data)
#define RET_ARG0 __CPROVER_ensures(argc >= 1 && __CPROVER_return_value.u64 == argv[0].u64)
#define NEWARR ((JanetArray *)g_new0)
#define NEW_FRAME __CPROVER_assigns(g_new0, g_new1, g_new_type, janet_vm.next_collection)
#define RET_NEW __CPROVER_ensures(g_new0 != SEQ_NULL && g_new1 == SEQ_NULL && __CPROVER_return_value.u64 == janet_wrap_array(NEWARR).u64)

/* ---- (array/new capacity) / (array/weak capacity): a NEW empty well-formed array with room for capacity elements
 * (array/weak: allocated as a weak array) */
#ifdef LIB_NEW_ANY_CAPACITY
#define NEW_DOMAIN
#else
/* domain restriction capacity >= 0: a negative capacity is stored as is - capacity < 0 <= count breaks the representation
 * invariant (units lib.array.new.negative / lib.array.weak.negative keep the obligation) */
#define NEW_DOMAIN __CPROVER_requires(argc < 1 || SLOT_INT(argv, 0) >= 0)
#endif
#define NEW_CONTRACT(fn, memtype) \
static Janet fn##_c(int32_t argc, Janet *argv) \
ARGS_PRE NEW_DOMAIN NEW_FRAME RET_NEW \
__CPROVER_ensures(argc == 1 && g_new_type == memtype) \
__CPROVER_ensures(WF_ARRAY(NEWARR) && NEWARR->count == 0 && NEWARR->capacity == SLOT_INT(argv, 0)) \
;
NEW_CONTRACT(cfun_array_new, JANET_MEMORY_ARRAY)
NEW_CONTRACT(cfun_array_weak, JANET_MEMORY_ARRAY_WEAK)
void h_array_new(void) { Janet *argv = mk_args(); cfun_array_new(g_argc, argv); REACH("array/new returns");
  if (NEWARR->capacity > 2) REACH("array/new returns an array with a block"); if (NEWARR->capacity == 0) REACH("array/new returns an array without block"); }
void h_array_weak(void) { Janet *argv = mk_args(); cfun_array_weak(g_argc, argv); REACH("array/weak returns");
  if (NEWARR->capacity > 2) REACH("array/weak returns an array with a block"); }

/* ---- (array/new-filled count &opt value): count >= 0 (else raises); a NEW array of count elements, all == value (nil) */
static Janet cfun_array_new_filled_c(int32_t argc, Janet *argv)
ARGS_PRE
#ifdef LIB_COUNT_POS
__CPROVER_requires(argc < 1 || SLOT_INT(argv, 0) > 0)     /* units .block / .empty: with and without block (loop contract needs the block) */
#else
__CPROVER_requires(argc < 1 || SLOT_INT(argv, 0) <= 0)
#endif
NEW_FRAME RET_NEW
__CPROVER_ensures(argc >= 1 && argc <= 2 && SLOT_INT(argv, 0) >= 0)
__CPROVER_ensures(WF_ARRAY(NEWARR) && NEWARR->count == SLOT_INT(argv, 0) && NEWARR->capacity == SLOT_INT(argv, 0))
__CPROVER_ensures(GHOST_IN(NEWARR) ==> A_ELEM(NEWARR, g_idx) == (argc == 2 ? argv[1].u64 : NIL_BITS))
;
void h_array_new_filled(void) { Janet *argv = mk_args(); SEQ_CHECK_NIL(); cfun_array_new_filled(g_argc, argv); REACH("array/new-filled returns");
#ifdef LIB_COUNT_POS
  if (NEWARR->count > 2 && g_argc == 2) REACH("array/new-filled returns more than two elements with a given value");
#else
  if (NEWARR->count == 0) REACH("array/new-filled returns the empty array");
#endif
}

/* ---- (array/fill arr &opt value): every element becomes value (default nil); length, capacity and block unchanged */
static Janet cfun_array_fill_c(int32_t argc, Janet *argv)
CF_PRE
#ifdef LIB_COUNT_POS
__CPROVER_requires(g_arr->capacity > 0)
#else
__CPROVER_requires(g_arr->capacity == 0)
#endif
__CPROVER_assigns(g_arr->capacity > 0: __CPROVER_object_whole(g_arr->data)) RET_ARG0
__CPROVER_ensures(WF_ARRAY(g_arr) && argc <= 2 && g_arr->count == g_oldcount && g_arr->capacity == g_oldcap)
__CPROVER_ensures(GHOST_IN(g_arr) ==> A_ELEM(g_arr, g_idx) == (argc == 2 ? argv[1].u64 : NIL_BITS))
;
void h_array_fill(void) { Janet *argv = mk_args(); SEQ_CHECK_NIL(); cfun_array_fill(g_argc, argv); REACH("array/fill returns");
#ifdef LIB_COUNT_POS
  if (g_oldcount > 2) REACH("array/fill returns for an array of more than two elements");
#endif
}

/* ---- (array/slice arrtup &opt start end): a NEW array holding exactly items[start, end); source not modified */
static Janet cfun_array_slice_c(int32_t argc, Janet *argv)
ARGS_PRE __CPROVER_requires(VIEW_OK(g_view))
#ifndef LIB_SLICE_ANY_ARGC
__CPROVER_requires(argc >= 1)    /* argv[0] is read before the arity check, see lib.string.slice.argc0 / str.cfun.buffer.slice.argc0 */
#endif
NEW_FRAME RET_NEW
__CPROVER_ensures(argc >= 1 && argc <= 3 && WF_ARRAY(NEWARR) && NEWARR->count == g_range.end - g_range.start && NEWARR->capacity == NEWARR->count)
__CPROVER_ensures(g_mm < (size_t)NEWARR->count ==> A_ELEM(NEWARR, g_mm) == g_view.items[g_range.start + g_mm].u64)
;
void h_array_slice(void) { Janet *argv = mk_args(); cfun_array_slice(g_argc, argv); REACH("array/slice returns");
  if (g_range.start > 0 && g_range.end < g_view.len && NEWARR->count > 1) REACH("array/slice returns a proper slice");
  if (NEWARR->count == 0) REACH("array/slice returns an empty array"); }

/* ---- (array/concat arr & parts) / (array/join arr & parts): parts that are arrays or tuples contribute their elements
 * (the array itself: its elements at that moment), any other part is appended as one element (array/join: raises);
 * prefix unchanged; returns arr. Bounded: at most LIB_MAXSLOT - 1 parts of at most LIB_MAXPART elements (self: the array
 * then has at most LIB_MAXPART elements), the element loops reallocate and are unwound.
 * Lengths: N(k) = number of elements part k contributes, C1 = length after part 1. Content is stated at the ghost
 * positions g_idx (destination) / g_idx2 (source of a self-concat). */
#define LIB_MAXSLOT 3
#define IS_IDX(x) (janet_checktype((x), JANET_ARRAY) || janet_checktype((x), JANET_TUPLE))
#define IS_SELF(x) (janet_checktype((x), JANET_ARRAY) && (x).u64 == g_self_bits)
#define N1(argv) ((int64_t)(argc > 1 ? (!IS_IDX(argv[1]) ? 1 : IS_SELF(argv[1]) ? g_oldcount : g_part.len) : 0))
#define C1(argv) ((int64_t)g_oldcount + N1(argv))
#define N2(argv) ((int64_t)(argc > 2 ? (!IS_IDX(argv[2]) ? 1 : IS_SELF(argv[2]) ? C1(argv) : g_part.len) : 0))
#define PART_POST(argv, k, start) \
  __CPROVER_ensures((argc > (k) && !IS_IDX(argv[k]) && (start) == g_idx) ==> A_ELEM(g_arr, g_idx) == argv[k].u64) \
  __CPROVER_ensures((argc > (k) && IS_IDX(argv[k]) && !IS_SELF(argv[k]) && g_j >= 0 && g_j < g_part.len && (start) + g_j == g_idx) ==> A_ELEM(g_arr, g_idx) == g_part.items[g_j].u64) \
  __CPROVER_ensures((argc > (k) && IS_SELF(argv[k]) && g_idx2 >= 0 && g_idx2 < (start) && (start) + g_idx2 == g_idx) ==> A_ELEM(g_arr, g_idx) == A_ELEM(g_arr, g_idx2))
#define CONCAT_CONTRACT(fn, JOIN) \
static Janet fn##_c(int32_t argc, Janet *argv) \
CF_PRE \
__CPROVER_requires(argc <= LIB_MAXSLOT && VIEW_OK(g_part) && g_part.len <= LIB_MAXPART && !__CPROVER_same_object(g_part.items, g_arr->data)) \
__CPROVER_requires(argc < 1 || argv[0].u64 == g_self_bits) \
__CPROVER_requires((argc > 1 && IS_SELF(argv[1])) ==> g_arr->count <= LIB_MAXPART) \
__CPROVER_requires((argc > 2 && IS_SELF(argv[2])) ==> C1(argv) <= LIB_MAXPART) \
CF_FRAME \
__CPROVER_ensures(argc >= 1 && __CPROVER_return_value.u64 == janet_wrap_array(g_arr).u64) \
__CPROVER_ensures(WF_ARRAY(g_arr) && (int64_t)g_arr->count == C1(argv) + N2(argv)) \
__CPROVER_ensures((g_idx >= 0 && g_idx < g_oldcount) ==> A_ELEM(g_arr, g_idx) == g_val) \
__CPROVER_ensures(JOIN ==> ((argc > 1 ==> IS_IDX(argv[1])) && (argc > 2 ==> IS_IDX(argv[2])))) \
PART_POST(argv, 1, (int64_t)g_oldcount) \
PART_POST(argv, 2, C1(argv)) \
;
CONCAT_CONTRACT(cfun_array_concat, 0)
CONCAT_CONTRACT(cfun_array_join, 1)
#define H_CONCAT(fn, lisp) \
void h_##fn(void) { \
  Janet *argv = mk_args(); \
  cfun_##fn(g_argc, argv); \
  REACH(lisp " returns"); \
  if (g_argc == 3 && IS_SELF(argv[1]) && IS_IDX(argv[2]) && !IS_SELF(argv[2]) && g_oldcount == 2 && g_part.len == 2) REACH(lisp " returns after appending the array to itself and another sequence"); \
  if (g_argc == 3 && IS_SELF(argv[2]) && g_arr->capacity != g_oldcap && g_arr->count == 4) REACH(lisp " returns after appending the grown array to itself"); \
}
H_CONCAT(array_concat, "array/concat")
H_CONCAT(array_join, "array/join")

/* ---- self-concat, ANY size: `array->count + len` and the view re-fetched after the reservation. Only the first element
 * copy is executed (loops cut after one iteration, no unwinding assertion): the obligations of interest are the
 * arithmetic before the loop and the liveness of the view at the first read. */
void h_array_concat_self(void) {
  Janet *argv = mk_args();
  __CPROVER_assume(g_argc == 2);
  argv[1] = argv[0];
  cfun_array_concat(g_argc, argv);
  REACH("array/concat of an array with itself returns");
}
static Janet cfun_array_concat_self_c(int32_t argc, Janet *argv)
CF_PRE
__CPROVER_requires(argc == 2 && argv[0].u64 == g_self_bits && argv[1].u64 == g_self_bits && VIEW_OK(g_part) && !__CPROVER_same_object(g_part.items, g_arr->data))
__CPROVER_requires(janet_checktype(argv[1], JANET_ARRAY))
CF_FRAME
__CPROVER_ensures(WF_ARRAY(g_arr))
;
