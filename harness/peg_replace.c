/* C12: peg/replace and peg/replace-all (cfun_peg_replace_generic, peg.c) "agree with repeated peg/match": the result is the
 * text with each match replaced and EVERYTHING ELSE copied - the pieces pushed to the result partition the text [0, len):
 * every push of text starts exactly where the previous piece ended, every substitution stands for the match that starts
 * there, and at the end the whole text is covered (no byte lost, none doubled). A zero-width match replaces nothing and
 * the scan moves one byte on - that byte is copied. The matcher, the substitution and the buffer are recording stubs. */
#include "prelude.h"
#ifndef PR_LEN
#define PR_LEN 4
#endif
static uint8_t pr_text[PR_LEN + 1]; static uint8_t pr_subst_block[4]; static JanetBuffer pr_ret;
static int32_t pr_len, pr_start, pr_covered; static int pr_matches, pr_only_one; static int32_t pr_last_from, pr_last_to; static int pr_subst_pending;
static uint32_t pr_bc[1];
PegCall pr_init_stub(int32_t argc, Janet *argv, int get_replace) {
  PegCall c; __CPROVER_assert(get_replace == 1, "peg.replace: the replacement argument is parsed");
  c.peg = (JanetPeg *)0; c.bytes.bytes = pr_text; c.bytes.len = pr_len; c.start = pr_start; c.subst.type = JANET_STRING; c.subst.as.u64 = 0;
  c.s.bytecode = pr_bc; c.s.captures = (JanetArray *)0;
  return c;
}
void pr_reset_stub(PegCall *c) {}
/* contract of peg_rule: no match, or the end of the match inside [position, end of text] */
const uint8_t *pr_rule_stub(PegState *s, const uint32_t *rule, const uint8_t *text) {
  __CPROVER_assert(text >= pr_text && text <= pr_text + pr_len, "peg.replace: matching starts inside the text");
  if (nd_int()) return (const uint8_t *)0;
  int32_t from = (int32_t)(text - pr_text), to = nd_i32();
  __CPROVER_assume(to >= from && to <= pr_len);
  pr_last_from = from; pr_last_to = to;
  return pr_text + to;
}
JanetByteView pr_subst_stub(Janet *subst, const uint8_t *bytes, uint32_t len, JanetArray *extra) {
  __CPROVER_assert(bytes == pr_text + pr_last_from && (int32_t) len == pr_last_to - pr_last_from, "peg.replace: the substitution is computed for exactly the matched text");
  pr_subst_pending = 1; pr_matches++;
  JanetByteView v; v.bytes = pr_subst_block; v.len = nd_i32(); __CPROVER_assume(v.len >= 0 && v.len <= 4); return v;
}
JanetBuffer *pr_buffer_stub(int32_t cap) { return &pr_ret; }
void pr_push_stub(JanetBuffer *b, const uint8_t *bytes, int32_t n) {
  __CPROVER_assert(b == &pr_ret && n >= 0, "peg.replace: pieces go to the result buffer");
  if (bytes == pr_subst_block) {
    __CPROVER_assert(pr_subst_pending && pr_covered == pr_last_from, "peg.replace: a substitution stands exactly where its match starts - everything before it has been copied");
    pr_covered = pr_last_to; pr_subst_pending = 0;
  } else {
    int32_t a = (int32_t)(bytes - pr_text);
    __CPROVER_assert(a == pr_covered, "peg.replace: copied text starts exactly where the previous piece ended (no byte lost, none doubled)");
    __CPROVER_assert(n > 0 && a + n <= pr_len, "peg.replace: copied text lies inside the text");
    pr_covered = a + n;
  }
}
void h_peg_replace(void) {
  pr_len = nd_i32(); pr_start = nd_i32();
  __CPROVER_assume(pr_len >= 0 && pr_len <= PR_LEN && pr_start >= 0 && pr_start <= pr_len);
  pr_only_one = nd_int() & 1; pr_covered = 0; pr_matches = 0; pr_subst_pending = 0;
  Janet argv[3];
  cfun_peg_replace_generic(3, argv, pr_only_one);
  __CPROVER_assert(pr_covered == pr_len, "peg.replace: the result covers the whole text");
  __CPROVER_assert(!pr_only_one || pr_matches <= 1, "peg.replace: peg/replace substitutes the first match only");
  if (pr_matches >= 2) REACH("replace-all: several matches");
  REACH("peg/replace returns");
}
