/* C01: a channel keeps its buffered items and the fibers waiting on it alive - janet_chanat_mark (ev.c), the gcmark hook of
 * core/channel. The three queues are ring buffers whose capacity is NOT a power of two (janet_q_maybe_resize grows them to
 * (count + 2) * 2: 4, 10, 22, ...): for EVERY queue state (head, tail, capacity; wrapped or not) the element at logical
 * position k - physical slot (head + k) mod capacity - is handed to janet_mark, for every k below the element count, and
 * exactly count elements are marked per queue. Ghost index k, recording stub for janet_mark. */
#include "prelude.h"
#ifndef GC_QCAP
#define GC_QCAP 6
#endif
static JanetChannel gm_chan; static Janet gm_items[GC_QCAP]; static JanetChannelPending gm_rd[GC_QCAP], gm_wr[GC_QCAP]; static JanetFiber gm_fib[2 * GC_QCAP];
static int gm_marks; static void *gm_want; static int gm_want_seen; static int gm_kind_want;
void gm_mark_stub(Janet x) {
  gm_marks++;
  if (x.as.pointer == gm_want && (int) x.type == gm_kind_want) gm_want_seen++;
}
static int32_t gm_setup_q(JanetQueue *q, void *data) {
  q->data = data; q->capacity = nd_i32(); q->head = nd_i32(); q->tail = nd_i32();
  __CPROVER_assume(q->capacity >= 1 && q->capacity <= GC_QCAP && q->head >= 0 && q->head < q->capacity && q->tail >= 0 && q->tail < q->capacity);
  return q->head <= q->tail ? q->tail - q->head : q->capacity - q->head + q->tail;    /* janet_q_count */
}
void h_mark_channel(void) {
  int32_t ni = gm_setup_q(&gm_chan.items, gm_items), nr = gm_setup_q(&gm_chan.read_pending, gm_rd), nw = gm_setup_q(&gm_chan.write_pending, gm_wr);
  for (int i = 0; i < GC_QCAP; i++) {
    gm_items[i].type = JANET_ARRAY; gm_items[i].as.pointer = (void *)(gm_fib + 0) + 1 + i;   /* distinct non-fiber identities */
    gm_rd[i].fiber = &gm_fib[i]; gm_wr[i].fiber = &gm_fib[GC_QCAP + i];
  }
  int which = nd_int(); __CPROVER_assume(which >= 0 && which <= 2);
  int32_t k = nd_i32(); int32_t n = which == 0 ? ni : which == 1 ? nr : nw;
  JanetQueue *q = which == 0 ? &gm_chan.items : which == 1 ? &gm_chan.read_pending : &gm_chan.write_pending;
  int have = n > 0;
  if (have) {
    __CPROVER_assume(k >= 0 && k < n);
    int32_t slot = (q->head + k) % q->capacity;
    if (which == 0) { gm_want = gm_items[slot].as.pointer; gm_kind_want = JANET_ARRAY; }
    else { gm_want = which == 1 ? (void *) gm_rd[slot].fiber : (void *) gm_wr[slot].fiber; gm_kind_want = JANET_FIBER; }
  }
  gm_marks = 0; gm_want_seen = 0;
  int r = janet_chanat_mark(&gm_chan, sizeof(JanetChannel));
  __CPROVER_assert(r == 0, "gc.mark.channel: the hook reports success");
  __CPROVER_assert(gm_marks == ni + nr + nw, "gc.mark.channel: exactly the queued items and the waiting fibers are marked");
  if (have) { __CPROVER_assert(gm_want_seen == 1, "gc.mark.channel: the element at every logical position of every queue is marked (ring buffer of any capacity, wrapped or not)"); REACH("channel with queued elements"); }
  if (q->head > q->tail) REACH("wrapped queue");
}
